------------------------------ MODULE ConstPool ------------------------------
(* The compiler's pool of rule constants (OrcCompiler.constants[ORC_N_CONSTANTS],
   orc_compiler_get_constant, orc_compiler_try_get_constant_long,
   orc_compiler_get_constant_long, orc_x86_init_constants).

   x86 compiles a program twice.  In the first pass (a dry run) every request
   of a rule for a constant either finds the value in the pool or appends it;
   nothing has a register yet, so every request is answered by loading the
   value into a temporary register.  Between the passes the entries are given
   registers in pool order while registers remain.  In the second pass a
   request is answered with the entry's register when it has one, by a load
   into a temporary otherwise.

   What C05 needs from this table: it is never indexed at or beyond Cap
   (InBounds), and whatever the pool's state, the value a rule receives is the
   value it asked for (RightValue) - a full pool degrades to unpooled loads,
   it does not fail and does not hand out another entry.

   Checks = FALSE is the code as pinned (no capacity test): TLC refutes InBounds.
   LoadsLast = TRUE is orc_compiler_get_constant_long as pinned (a long value
   without a register is loaded from the last pool entry): TLC refutes RightValue. *)
EXTENDS Naturals, Sequences, FiniteSets
CONSTANTS Cap,        \* ORC_N_CONSTANTS (20 in the code; small in the model)
          Values,     \* constants the rules of one program may ask for
          Longs,      \* the subset asked for through the long interface
          NRegs,      \* registers left for constants after the variables
          MaxReq,     \* requests per pass (bounds the model)
          Checks, LoadsLast
ASSUME Longs \subseteq Values

VARIABLES pool,      \* sequence of [v, reg, uses]
          pass,      \* 1, 2, or 3 (done)
          nreq,      \* requests made in this pass
          asked,     \* last value asked for (0: none yet)
          got,       \* value the rule received for it
          how,       \* "reg" | "temp" | "none" (long form: caller falls back)
          maxidx     \* highest index of constants[] written so far (1-based)
vars == <<pool, pass, nreq, asked, got, how, maxidx>>

Find(v) == IF \E i \in 1..Len(pool) : pool[i].v = v
           THEN CHOOSE i \in 1..Len(pool) : pool[i].v = v ELSE 0

Init == pool = <<>> /\ pass = 1 /\ nreq = 0 /\ asked = 0 /\ got = 0 /\ how = "none" /\ maxidx = 0

Full == Checks /\ Len(pool) >= Cap

(* orc_compiler_get_constant (short form) and orc_compiler_get_constant_long *)
Get(v, long) ==
  /\ pass \in {1, 2} /\ nreq < MaxReq
  /\ nreq' = nreq + 1 /\ asked' = v /\ UNCHANGED pass
  /\ LET i == Find(v) IN
     IF i # 0 THEN
        /\ pool' = [pool EXCEPT ![i].uses = @ + 1]
        /\ UNCHANGED maxidx
        /\ IF pool[i].reg # 0 THEN got' = v /\ how' = "reg"
           ELSE /\ how' = "temp"
                /\ got' = IF long /\ LoadsLast THEN pool[Len(pool)].v ELSE v
     ELSE IF Full THEN
        /\ UNCHANGED <<pool, maxidx>> /\ got' = v /\ how' = "temp"
     ELSE
        /\ pool' = Append(pool, [v |-> v, reg |-> 0, uses |-> 1])
        /\ maxidx' = IF Len(pool) + 1 > maxidx THEN Len(pool) + 1 ELSE maxidx
        /\ got' = v /\ how' = "temp"

(* orc_compiler_try_get_constant_long: the rules that have a fallback *)
TryGet(v) ==
  /\ pass \in {1, 2} /\ nreq < MaxReq /\ v \in Longs
  /\ nreq' = nreq + 1 /\ asked' = v /\ UNCHANGED pass
  /\ LET i == Find(v) IN
     IF i # 0 THEN
        /\ pool' = [pool EXCEPT ![i].uses = @ + 1] /\ UNCHANGED maxidx
        /\ IF pool[i].reg # 0 THEN got' = v /\ how' = "reg" ELSE got' = v /\ how' = "none"
     ELSE IF Full THEN UNCHANGED <<pool, maxidx>> /\ got' = v /\ how' = "none"
     ELSE /\ pool' = Append(pool, [v |-> v, reg |-> 0, uses |-> 1])
          /\ maxidx' = IF Len(pool) + 1 > maxidx THEN Len(pool) + 1 ELSE maxidx
          /\ got' = v /\ how' = "none"

(* orc_x86_init_constants: registers in pool order while any remain *)
NextPass ==
  /\ pass \in {1, 2} /\ nreq > 0
  /\ pass' = pass + 1 /\ nreq' = 0
  /\ pool' = IF pass = 1
             THEN [i \in 1..Len(pool) |-> [pool[i] EXCEPT !.reg = IF i <= NRegs THEN i ELSE 0]]
             ELSE pool
  /\ UNCHANGED <<asked, got, how, maxidx>>

Next == \/ \E v \in Values : Get(v, v \in Longs)
        \/ \E v \in Longs : TryGet(v)
        \/ NextPass
Spec == Init /\ [][Next]_vars

InBounds   == maxidx <= Cap
RightValue == asked # 0 => got = asked
NoDuplicates == \A i, j \in 1..Len(pool) : pool[i].v = pool[j].v => i = j
RegsDistinct == \A i, j \in 1..Len(pool) : (pool[i].reg # 0 /\ pool[i].reg = pool[j].reg) => i = j
(* the boundary the stimulus is built around: a program asking for exactly Cap,
   Cap + 1 ... different values reaches a full pool in the first pass *)
FullReachable == ~(pass = 1 /\ Len(pool) = Cap /\ nreq < MaxReq)
=============================================================================
