---------------------------- MODULE CodeMemAbs ----------------------------
(***************************************************************************)
(* Property-level specification of Orc's executable code memory (C09).     *)
(*                                                                         *)
(* What an application may rely on, and nothing else:                      *)
(*  - every live code object occupies a byte range inside one region,      *)
(*    disjoint from every other live range (NoOverlap);                    *)
(*  - the range of a live object never moves (Alloc fixes it, only Free    *)
(*    removes it);                                                         *)
(*  - a new region is created only when no existing region has a           *)
(*    contiguous free gap large enough for the request, i.e. freed memory  *)
(*    is coalesced and reused (NewRegionOnlyIfNeeded);                     *)
(*  - a request that cannot fit in any region fails (and may leave one     *)
(*    more, empty, region behind: a documented deviation of the code).     *)
(* WHICH gap is used is deliberately left open: first-fit, best-fit or any *)
(* other placement policy refines this module.                             *)
(*                                                                         *)
(* Sizes and offsets are in abstract units; the trace specification        *)
(* instantiates them with bytes, the model-checking configuration with     *)
(* quarter-regions.                                                        *)
(***************************************************************************)
EXTENDS Naturals, FiniteSets, Sequences

CONSTANTS Handles,      \* identities of code objects
          RSize,        \* size of one region
          MaxRegions,   \* bound for model checking
          Sizes         \* request sizes explored by the model checker

None == [r |-> 0, off |-> 0, size |-> 0]

VARIABLES nreg,     \* number of regions obtained so far (never shrinks)
          live      \* [Handles -> None or [r, off, size]]

avars == <<nreg, live>>

IsLive(h) == live[h].r # 0

Ranges(r) == { live[h] : h \in {x \in Handles : live[x].r = r} }

Disjoint(o1, s1, o2, s2) == o1 + s1 <= o2 \/ o2 + s2 <= o1

\* [off, off+size) lies in region r and touches no live range of r
FreeAt(r, off, size) ==
  /\ off + size <= RSize
  /\ \A x \in Ranges(r) : Disjoint(off, size, x.off, x.size)

\* candidate starts of maximal gaps: 0 and the end of every live range
GapStarts(r) == {0} \cup { x.off + x.size : x \in Ranges(r) }

HasGap(r, size) == \E s \in GapStarts(r) : FreeAt(r, s, size)

SomeGap(size) == \E r \in 1..nreg : HasGap(r, size)

TypeOK ==
  /\ nreg \in 0..MaxRegions
  /\ \A h \in Handles : live[h] = None \/
        (live[h].r \in 1..nreg /\ live[h].size >= 1 /\
         live[h].off + live[h].size <= RSize)

NoOverlap ==
  \A h1, h2 \in Handles :
    (h1 # h2 /\ IsLive(h1) /\ IsLive(h2) /\ live[h1].r = live[h2].r) =>
       Disjoint(live[h1].off, live[h1].size, live[h2].off, live[h2].size)

AInit == nreg = 0 /\ live = [h \in Handles |-> None]

\* place h somewhere free in an existing region
AllocIn(h, size, r, off) ==
  /\ ~IsLive(h)
  /\ r \in 1..nreg
  /\ FreeAt(r, off, size)
  /\ live' = [live EXCEPT ![h] = [r |-> r, off |-> off, size |-> size]]
  /\ UNCHANGED nreg

\* a new region may be obtained only if nothing fits anywhere
AllocNew(h, size, off) ==
  /\ ~IsLive(h)
  /\ ~SomeGap(size)
  /\ size <= RSize
  /\ off + size <= RSize
  /\ nreg' = nreg + 1
  /\ live' = [live EXCEPT ![h] = [r |-> nreg + 1, off |-> off, size |-> size]]

\* the operating system gives no more memory, or the request can never fit
AllocFail(h, size) ==
  /\ ~IsLive(h)
  /\ ~SomeGap(size)
  /\ nreg' \in {nreg, nreg + 1}     \* oversize request may strand a region
  /\ UNCHANGED live

Free(h) ==
  /\ IsLive(h)
  /\ live' = [live EXCEPT ![h] = None]
  /\ UNCHANGED nreg

ANext ==
  \E h \in Handles :
     \/ Free(h)
     \/ \E size \in Sizes :
          \/ \E r \in 1..nreg, off \in 0..(RSize - 1) : AllocIn(h, size, r, off)
          \/ (\E off \in 0..(RSize - 1) : AllocNew(h, size, off))
          \/ AllocFail(h, size)

ASpec == AInit /\ [][ANext]_avars

ABound == nreg <= MaxRegions   \* CONSTRAINT when this module is checked alone

\* The number of regions is bounded by the largest working set seen:
\* regions only appear when nothing fits, so (with unit-size granularity)
\* nreg * RSize never exceeds what a fragmenting adversary can pin.
=============================================================================
