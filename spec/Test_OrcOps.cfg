SPECIFICATION Spec
INVARIANTS Commute Values RoundTrips
CHECK_DEADLOCK FALSE
