-------------------------- MODULE Trace_OrcSystem --------------------------
(***************************************************************************)
(* Validation of Api traces recorded by harness/h_api (and h_fault) against *)
(* OrcSystem.  One trace line = one public API call with the projection of  *)
(* the state observable afterwards:                                         *)
(*   Reset {mode}                                new process, ORC_CODE      *)
(*   Api {op,p,a,res,cls,ok,bk,used,nreg,code,chunk,exec,err,asm,           *)
(*        dcode,dasm,csize}                                                 *)
(*   End {leak}                                  LeakSanitizer at the end   *)
(* The resource effects of every call are the specification's (OrcSystem    *)
(* actions); what a compile returns is taken from the trace (class, code,   *)
(* chunk, exec) and judged by OrcSystem's invariants -- FatalNoCode,        *)
(* SuccessCallable, OtherRunnable, JitHasMemory, NoLeak -- evaluated in     *)
(* every state, plus the chunk accounting  used = ChunksUsed  after every   *)
(* call and the determinism ghost `image` (C17).  A class different from    *)
(* the one CompileOutcome predicts is printed as DRIFT (diagnostic only).   *)
(***************************************************************************)
EXTENDS Naturals, Sequences, FiniteSets, TLC, Json, IOUtils

TraceLog == ndJsonDeserialize(IOEnv.TRACE)

VARIABLES mode, prog, tcode, heap, bad, last, hist, l, image

INSTANCE OrcSystem WITH Progs <- 1..8, Codes <- 1..8,
     Targets <- {"avx", "sse", "mmx", "null"}, Modes <- {"jit", "backup", "emulate"},
     MaxHist <- 0, DumpFile <- "", E0KeepsCode <- FALSE

tvars == <<mode, prog, tcode, heap, bad, last, hist, l, image>>

Ev == TraceLog[l]
IsEvent(name) == l <= Len(TraceLog) /\ Ev.e = name /\ l' = l + 1
IsApi(op) == IsEvent("Api") /\ Ev.op = op

TInit ==
  /\ mode = "jit"
  /\ prog = [p \in 1..8 |-> NoProg]
  /\ tcode = [c \in 1..8 |-> NoCode]
  /\ heap = {} /\ bad = FALSE
  /\ last = [op |-> "init", cls |-> "-", p |-> 0]
  /\ hist = <<>>
  /\ l = 1
  /\ image = <<>>        \* function: key -> [dcode, dasm]

\* a process either ends with its End event or leaves a Crash event (for which
\* there is no action): a truncated execution is never accepted silently
TReset ==
  /\ IsEvent("Reset")
  /\ IF l = 1 THEN TRUE ELSE TraceLog[l - 1].e = "End"
  /\ mode' = Ev.mode
  /\ prog' = [p \in 1..8 |-> NoProg]
  /\ tcode' = [c \in 1..8 |-> NoCode]
  /\ heap' = {} /\ bad' = FALSE
  /\ last' = [op |-> "init", cls |-> "-", p |-> 0]
  /\ hist' = <<>>
  /\ UNCHANGED image      \* determinism holds across processes too

B(x) == x = 1

\* which property's conjuncts are enforced (environment F_C16=1 etc.); the
\* state updates are always performed
On(tag) == tag \in DOMAIN IOEnv /\ IOEnv[tag] = "1"
Chk(tag, cond) == On(tag) => cond

\* overlay the fields the specification leaves to the implementation
Seen(rec) == [rec EXCEPT !.err = B(Ev.err), !.exec = Ev.exec, !.asm = B(Ev.asm)]

\* the action `A` of OrcSystem happened to program p; the record it predicts
\* must agree with the trace on what the application can rely on
ProgStep(p, A) ==
  /\ A
  /\ Chk("F_C16", prog'[p].code = B(Ev.code) /\ prog'[p].chunk = B(Ev.chunk))

\* accounting of code memory after the call (walker count)
Accounted == Chk("F_C16", Ev.used = Cardinality({r \in heap' : r[1] \in {"pchunk", "tchunk"}}))

TNew == IsApi("new") /\ ProgStep(Ev.p, New(Ev.p, Ev.a)) /\ Accounted /\ UNCHANGED image
TBadAppend == IsApi("badappend") /\ ProgStep(Ev.p, BadAppend(Ev.p)) /\ B(Ev.err) /\ Accounted /\ UNCHANGED image
TSpoil == IsApi("spoil") /\ ProgStep(Ev.p, Spoil(Ev.p)) /\ Accounted /\ UNCHANGED image
TBackup == IsApi("backup") /\ ProgStep(Ev.p, SetBackup(Ev.p)) /\ Accounted /\ UNCHANGED image
TReset1 == IsApi("reset") /\ ProgStep(Ev.p, Reset(Ev.p)) /\ Accounted /\ UNCHANGED image
TTake == /\ IsApi("take")
         /\ LET c == CHOOSE x \in 1..8 : ToString(x) = Ev.a IN ProgStep(Ev.p, TakeCode(Ev.p, c))
         /\ Accounted /\ UNCHANGED image
TFreeProg == IsApi("freep") /\ FreeProg(Ev.p) /\ Accounted /\ UNCHANGED image
TFreeCode == IsApi("freec") /\ FreeCode(Ev.p) /\ Accounted /\ UNCHANGED image

\* results are right on whatever path was dispatched; a backup function, when
\* it is the entry point, is called exactly once, otherwise not at all
TRun ==
  /\ IsApi("run")
  /\ Run(Ev.p)
  /\ Chk("F_C17", Ev.ok = 1)      \* running the same code again gives the same (right) result
  /\ Chk("F_C06", Ev.ok = 1 /\ Ev.bk = (IF prog[Ev.p].exec = "backup" THEN 1 ELSE 0))
  /\ Accounted /\ UNCHANGED image

TRunCode ==
  /\ IsApi("runc")
  /\ RunCode(Ev.p)
  /\ Chk("F_C17", Ev.ok = 1)
  /\ Chk("F_C06", Ev.ok = 1 /\ Ev.bk = (IF tcode[Ev.p].exec = "backup" THEN 1 ELSE 0))
  /\ Accounted /\ UNCHANGED image

Key(p, tgt) == <<p, prog[p].shape, tgt>>

TCompile ==
  /\ IsApi("compile")
  /\ LET p == Ev.p
         pred == CompileOutcome(prog[p], mode, Ev.a)
         rec == Seen([pred.rec EXCEPT !.code = B(Ev.code), !.chunk = B(Ev.chunk)])
         k == Key(p, Ev.a)
     IN
       /\ prog[p].live
       /\ (pred.cls # Ev.cls => PrintT(<<"DRIFT", "compile class", pred.cls, Ev.cls, l>>))
       /\ prog' = [prog EXCEPT ![p] = rec]
       /\ heap' = (heap \ ProgRes(p, prog[p])) \cup ProgRes(p, rec)
       /\ last' = [op |-> "compile", cls |-> Ev.cls, p |-> p]
       /\ IF Ev.cls = "S"
            THEN IF k \in DOMAIN image
                   THEN Chk("F_C17", image[k] = [dcode |-> Ev.dcode, dasm |-> Ev.dasm]) /\ UNCHANGED image
                   ELSE image' = (k :> [dcode |-> Ev.dcode, dasm |-> Ev.dasm]) @@ image
            ELSE UNCHANGED image
  /\ hist' = hist
  /\ UNCHANGED <<mode, tcode, bad>>
  /\ Accounted

\* churn: n times (reset; compile for avx; run) reported as one event: the
\* state afterwards is that of the last compile, every run must have been right
TChurn ==
  /\ IsApi("churn")
  /\ LET p == Ev.p
         pr == [DropCode(prog[p]) EXCEPT !.asm = FALSE, !.err = FALSE]
         pred == CompileOutcome(pr, mode, "avx")
         rec == Seen([pred.rec EXCEPT !.code = B(Ev.code), !.chunk = B(Ev.chunk)])
     IN
       /\ prog[p].live
       /\ prog' = [prog EXCEPT ![p] = rec]
       /\ heap' = (heap \ ProgRes(p, prog[p])) \cup ProgRes(p, rec)
       /\ last' = [op |-> "compile", cls |-> Ev.cls, p |-> p]
       /\ Chk("F_C06", Ev.ok = 1 /\ (rec.exec # "backup" => Ev.bk = 0))
  /\ hist' = hist
  /\ UNCHANGED <<mode, tcode, bad, image>>
  /\ Accounted

TEnd == /\ IsEvent("End")
        /\ Chk("F_C16", Ev.leak = 0)
        /\ UNCHANGED <<mode, prog, tcode, heap, bad, last, hist, image>>

\* events of other vocabularies (allocator hooks are validated by Trace_CodeMem,
\* compiler exits ...) stutter; Crash is in this vocabulary and has no action
TSkip == /\ l <= Len(TraceLog) /\ Ev.e \notin {"Reset", "Api", "End", "Crash"}
         /\ l' = l + 1
         /\ UNCHANGED <<mode, prog, tcode, heap, bad, last, hist, image>>

TNext == TSkip \/ TReset \/ TNew \/ TSpoil \/ TChurn \/ TBadAppend \/ TBackup \/ TReset1 \/ TTake \/ TFreeProg
         \/ TFreeCode \/ TRun \/ TRunCode \/ TCompile \/ TEnd

TSpec == TInit /\ [][TNext]_tvars

InvC05 == Chk("F_C05", FatalNoCode /\ SuccessCallable /\ OtherRunnable)
InvC06 == Chk("F_C06", JitHasMemory)
InvC16 == Chk("F_C16", NoUseAfterFree /\ TakenOutlives /\ NoLeak)

Consumed == TLCGet("stats").diameter - 1
TraceAccepted ==
  IF Consumed = Len(TraceLog) /\ TraceLog[Len(TraceLog)].e = "End" THEN TRUE
  ELSE Print(<<"REJECTED_AT", Consumed + 1, "of", Len(TraceLog)>>, FALSE)
=============================================================================
