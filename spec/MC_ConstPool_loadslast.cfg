SPECIFICATION Spec
CONSTANTS
 Cap = 3
 Values = {1,2,3,4,5}
 Longs = {4,5}
 NRegs = 2
 MaxReq = 6
 Checks = TRUE
 LoadsLast = TRUE
INVARIANTS RightValue
CHECK_DEADLOCK FALSE
