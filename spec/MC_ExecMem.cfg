SPECIFICATION FairSpec
CONSTANTS
  NDirs = 2
  MaxCalls = 18
  MaxFaults = 2
  Buggy = ""
INVARIANTS Balanced NoWildSuccess SuccessIffMapped DumpInv
PROPERTY Terminates
CHECK_DEADLOCK FALSE
