SPECIFICATION Spec
CONSTANTS
  NInsns = 100
  NVarSlots = 64
  MaxProgTemps = 16
  MaxConsts = 16
  MaxLen = 103
  MaxRuns = 2
  Checks = TRUE
  DumpNear = 1
INVARIANTS InBounds DumpInv
CHECK_DEADLOCK FALSE
