--------------------------- MODULE Trace_Compile ---------------------------
(***************************************************************************)
(* Validation of Compile events recorded by harness/h_compile (C05): every *)
(* (program, target) pair must produce exactly one Compile event -- the     *)
(* compile returned, in time, without a sanitizer report -- whose result    *)
(* class fixes the post-state:                                              *)
(*   S  => the program holds code memory and its entry point lies in it     *)
(*   F  => no code memory, entry point is not native code                   *)
(*   O  => the code object with the emulation tables exists and the entry   *)
(*         point is the emulator or the backup function                     *)
(* A Died event (signal, sanitizer exit, watchdog) has no action.           *)
(***************************************************************************)
EXTENDS Naturals, Sequences, TLC, Json, IOUtils

TraceLog == ndJsonDeserialize(IOEnv.TRACE)
VARIABLES l, nS, nF, nO
tvars == <<l, nS, nF, nO>>
Ev == TraceLog[l]
IsEvent(name) == l <= Len(TraceLog) /\ Ev.e = name /\ l' = l + 1

TInit == l = 1 /\ nS = 0 /\ nF = 0 /\ nO = 0

ClassOK ==
  CASE Ev.cls = "S" -> Ev.code = 1 /\ Ev.chunk = 1 /\ Ev.exec = "jit"
    [] Ev.cls = "F" -> Ev.chunk = 0 /\ Ev.exec # "jit"
    [] Ev.cls = "O" -> Ev.code = 1 /\ Ev.exec \in {"emu", "backup"}
    [] OTHER -> FALSE

TCompile == /\ IsEvent("Compile")
            /\ ClassOK
            /\ nS' = nS + (IF Ev.cls = "S" THEN 1 ELSE 0)
            /\ nF' = nF + (IF Ev.cls = "F" THEN 1 ELSE 0)
            /\ nO' = nO + (IF Ev.cls = "O" THEN 1 ELSE 0)

TOther == /\ l <= Len(TraceLog)
          /\ Ev.e \notin {"Compile", "Died", "Crash"}      \* the other hooks' vocabularies are not this check's
          /\ l' = l + 1 /\ UNCHANGED <<nS, nF, nO>>

TNext == TCompile \/ TOther
TSpec == TInit /\ [][TNext]_tvars

Consumed == TLCGet("stats").diameter - 1
TraceAccepted ==
  IF Consumed = Len(TraceLog) THEN TRUE
  ELSE Print(<<"REJECTED_AT", Consumed + 1, "of", Len(TraceLog)>>, FALSE)
=============================================================================
