------------------------------ MODULE Registry ------------------------------
(***************************************************************************)
(* Orc's global registries (C20): opcode sets (orc/orcopcode.c) and, per    *)
(* target, rule sets (orc/orcrule.c, orc_target_get_rule in orctarget.c).   *)
(*                                                                          *)
(*   RegisterSet(names)           orc_opcode_register_static               *)
(*   NewRuleSet(major, req, cov)  orc_rule_set_new + orc_rule_register for  *)
(*                                every name in cov                         *)
(*   Find(name)                   orc_opcode_find_by_name: exact name, the  *)
(*                                earliest registered set wins              *)
(*   Rule(major, name, flags)     orc_target_get_rule: the newest rule set  *)
(*                                of that opcode set whose required flags   *)
(*                                are all present and which has a rule for  *)
(*                                the opcode                                *)
(* Set 1 is the built-in "sys" set (abstracted to a few names); rule set 1  *)
(* is the target's built-in rule set.  TLC explores all registration        *)
(* histories within the bounds and checks that extensions never disturb     *)
(* the built-ins except through a later, satisfied rule set that covers     *)
(* them; the histories are replayed into the library.                       *)
(***************************************************************************)
EXTENDS Naturals, FiniteSets, Sequences, TLC, Json

CONSTANTS AppNames,     \* names an application may give its opcodes
          MaxSets, MaxRuleSets,
          TargetFlags   \* flags present when compiling (subset of {"F1","F2"})

Builtin == <<"addb", "addusb", "xorb">>     \* the names of the built-in set that are modelled

VARIABLES sets,        \* Seq of Seq of names
          rsets,       \* Seq of [major, req, cov]
          hist
vars == <<sets, rsets, hist>>

Flags == {"F1", "F2"}

Init == /\ sets = << Builtin >>
        /\ rsets = << [major |-> 1, req |-> {}, cov |-> { Builtin[i] : i \in 1..Len(Builtin) }] >>
        /\ hist = <<>>

NamesOf(s) == { s[i] : i \in 1..Len(s) }

RegisterSet(names) ==
  /\ Len(sets) < MaxSets
  /\ sets' = Append(sets, names)
  /\ hist' = Append(hist, [op |-> "S", names |-> names, major |-> 0, req |-> {}, cov |-> {}])
  /\ UNCHANGED rsets

NewRuleSet(major, req, cov) ==
  /\ Len(rsets) < MaxRuleSets
  /\ major \in 1..Len(sets)
  /\ cov # {} /\ cov \subseteq NamesOf(sets[major])
  /\ rsets' = Append(rsets, [major |-> major, req |-> req, cov |-> cov])
  /\ hist' = Append(hist, [op |-> "R", names |-> <<>>, major |-> major, req |-> req, cov |-> cov])
  /\ UNCHANGED sets

AppSets == { <<a>> : a \in AppNames } \cup { p \in AppNames \X AppNames : p[1] # p[2] }

Next == \/ \E ns \in AppSets : RegisterSet(ns)
        \/ \E m \in 1..MaxSets, r \in SUBSET Flags, n \in (AppNames \cup NamesOf(Builtin)) : NewRuleSet(m, r, {n})
Spec == Init /\ [][Next]_vars

-----------------------------------------------------------------------------
(* queries *)
Has(name) == { i \in 1..Len(sets) : name \in NamesOf(sets[i]) }
Find(name) == IF Has(name) = {} THEN 0 ELSE CHOOSE i \in Has(name) : \A j \in Has(name) : i <= j
Eligible(major, name, flags) ==
  { k \in 1..Len(rsets) : rsets[k].major = major /\ rsets[k].req \subseteq flags /\ name \in rsets[k].cov }
Rule(major, name, flags) ==
  LET e == Eligible(major, name, flags)
  IN IF e = {} THEN 0 ELSE CHOOSE k \in e : \A j \in e : j <= k

-----------------------------------------------------------------------------
(* built-ins behave as before unless a later satisfied rule set covers them *)
BuiltinNamesStable == \A i \in 1..Len(Builtin) : Find(Builtin[i]) = 1
BuiltinRulesStable ==
  \A i \in 1..Len(Builtin) :
    LET r == Rule(1, Builtin[i], TargetFlags) IN
      r = 1 \/ (r > 1 /\ rsets[r].req \subseteq TargetFlags /\ Builtin[i] \in rsets[r].cov)
NewestSatisfiedWins ==
  \A m \in 1..Len(sets), i \in 1..2 : i <= Len(sets[m]) =>
    LET r == Rule(m, sets[m][i], TargetFlags) IN
      \A k \in Eligible(m, sets[m][i], TargetFlags) : k <= r
\* an application opcode whose name is not already taken is found in its own set
AppFound == \A m \in 2..Len(sets), i \in 1..2 : i <= Len(sets[m]) =>
              (Find(sets[m][i]) = m \/ \E j \in 1..(m - 1) : sets[m][i] \in NamesOf(sets[j]))

View == <<sets, rsets>>       \* model checking: histories with the same registries are one state
\* simulation: print the history of every behaviour at the given depth
CONSTANT SimDepth
SimDump == Len(hist) # SimDepth \/ PrintT("HIST " \o ToJson(hist))
=============================================================================
