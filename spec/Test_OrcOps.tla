---------------------------- MODULE Test_OrcOps ----------------------------
(***************************************************************************)
(* Algebraic sanity of the opcode definitions themselves, checked by TLC    *)
(* exhaustively over all pairs of 8-bit words (and a grid of 16-bit ones):  *)
(* guards against transcription slips in OrcOps / OrcWord.                  *)
(***************************************************************************)
EXTENDS OrcOps, TLC, Integers
VARIABLES a, b
Init == a \in 0..255 /\ b \in 0..255
Next == UNCHANGED <<a, b>>
Spec == Init /\ [][Next]_<<a, b>>
A == <<a>>  B == <<b>>
S(x) == IF x >= 128 THEN x - 256 ELSE x            \* signed value of a byte
Clamp(v, lo, hi) == IF v < lo THEN lo ELSE IF v > hi THEN hi ELSE v
U(v) == <<(v + 256) % 256>>
W16(v) == <<v % 256, v \div 256>>

Commute == \A f \in {"add", "addss", "addus", "and", "avgs", "avgu", "maxs", "maxu", "mins", "minu", "mull",
                      "mulhs", "mulhu", "or", "xor", "cmpeq"} : Bin(f, A, B) = Bin(f, B, A)
Values ==
  /\ Bin("add", A, B) = U(a + b)
  /\ Bin("sub", A, B) = U(a - b + 256)
  /\ Bin("addss", A, B) = U(Clamp(S(a) + S(b), -128, 127) + 256)
  /\ Bin("subss", A, B) = U(Clamp(S(a) - S(b), -128, 127) + 256)
  /\ Bin("addus", A, B) = U(Clamp(a + b, 0, 255))
  /\ Bin("subus", A, B) = U(Clamp(a - b, 0, 255))
  /\ Bin("avgu", A, B) = U((a + b + 1) \div 2)
  /\ Bin("avgs", A, B) = U(((S(a) + S(b) + 1 + 512) \div 2) - 256 + 256)
  /\ Bin("mull", A, B) = U((a * b) % 256)
  /\ Bin("mulhu", A, B) = U((a * b) \div 256)
  /\ Bin("mulhs", A, B) = U(((S(a) * S(b) + 65536) \div 256) % 256)
  /\ Bin("maxs", A, B) = (IF S(a) >= S(b) THEN A ELSE B)
  /\ Bin("minu", A, B) = (IF a <= b THEN A ELSE B)
  /\ Bin("cmpgts", A, B) = (IF S(a) > S(b) THEN <<255>> ELSE <<0>>)
  /\ Bin("andn", A, B) = U((255 - a) & b)
  /\ Op("absb", A, B) = U(IF S(a) < 0 THEN 0 - S(a) ELSE S(a))
  /\ Op("signb", A, B) = U(Clamp(S(a), -1, 1) + 256)
  /\ Op("mulsbw", A, B) = W16((S(a) * S(b) + 65536) % 65536)
  /\ Op("mulubw", A, B) = W16(a * b)
  /\ Op("convsbw", A, B) = W16((S(a) + 65536) % 65536)
  /\ Op("convssswb", <<a, b>>, B) = U(Clamp((IF b >= 128 THEN a + 256 * b - 65536 ELSE a + 256 * b), -128, 127) + 256)
  /\ Op("convsuswb", <<a, b>>, B) = U(Clamp((IF b >= 128 THEN a + 256 * b - 65536 ELSE a + 256 * b), 0, 255))
  /\ Op("convuuswb", <<a, b>>, B) = U(Clamp(a + 256 * b, 0, 255))
  /\ Op("convusswb", <<a, b>>, B) = U(Clamp(a + 256 * b, 0, 127))
  /\ Op("div255w", <<a, b>>, B) = W16((a + 256 * b) \div 255)
  /\ (b % 8 = b => /\ Bin("shl", A, B) = U((a * Pow2(b)) % 256)
                   /\ Bin("shru", A, B) = U(a \div Pow2(b))
                   /\ Bin("shrs", A, B) = U(((S(a) + 128) \div Pow2(b)) - (128 \div Pow2(b)) + 256))
RoundTrips ==
  /\ Op("mergebw", A, B) = <<a, b>>
  /\ Op2D("splitwb", <<a, b>>) = <<B, A>>
  /\ Op("select0wb", <<a, b>>, B) = A /\ Op("select1wb", <<a, b>>, B) = B
  /\ Op("swapw", <<a, b>>, B) = <<b, a>>
  /\ Sub(Add(A, B), B) = A
  /\ Neg(Neg(A)) = A
  /\ Low(MulU(<<a, b>>, <<b, a>>), 4) = MulU(<<b, a>>, <<a, b>>)
  /\ ShrU(Shl(<<a, b, 0, 0>>, 13), 13) = <<a, b, 0, 0>>
=============================================================================
