---------------------------- MODULE Concurrency ----------------------------
(***************************************************************************)
(* Orc's synchronisation as compiled on this platform (C08):               *)
(*   orc_init()           orc/orc.c      double-checked flag under the     *)
(*                                       global mutex                      *)
(*   orc_once_enter/leave orc/orconce.h  C11 variant: acquire load, once   *)
(*                                       mutex, re-check, plain store of   *)
(*                                       value, release store of inited    *)
(*   code allocator       orc/orccodemem.c   every access under the global *)
(*                                       mutex                             *)
(* One label = one shared-memory access or lock operation.  A happens-     *)
(* before ghost (vector clocks advanced by unlock->lock and by release     *)
(* store->acquire load that reads it) decides whether two conflicting      *)
(* plain accesses are ordered; `race` records the first pair that is not.  *)
(*                                                                         *)
(* Constants select variants; the three weakened ones must be refuted:     *)
(*   AtomicInitFlag = FALSE  orc_init's flag is a plain int read outside   *)
(*                           the mutex (the code before its fix)           *)
(*   Recheck = FALSE         orc_once_enter does not load inited again     *)
(*                           after taking the once mutex                   *)
(*   ReleaseStore = FALSE    orc_once_leave stores inited relaxed          *)
(*   LockedFree = FALSE      orc_code_chunk_free clears `used` before      *)
(*                           taking the global mutex                       *)
(***************************************************************************)
EXTENDS Naturals, FiniteSets, Sequences, TLC

CONSTANTS Threads, Onces, AtomicInitFlag, Recheck, ReleaseStore, LockedFree

Zero == [t \in Threads |-> 0]
Max(a, b) == IF a >= b THEN a ELSE b
Join(u, v) == [t \in Threads |-> Max(u[t], v[t])]
TickV(v, me) == [v EXCEPT ![me] = @ + 1]
Locs == {<<"initFlag", 0>>, <<"registry", 0>>, <<"alloc", 0>>} \cup {<<"value", o>> : o \in Onces}

(* --algorithm orc {
  variables
    VC = [t \in Threads |-> [u \in Threads |-> IF u = t THEN 1 ELSE 0]],   \* vector clocks
    gm = 0, gmVC = Zero,          \* global mutex: holder (0 = free), clock at last unlock
    om = 0, omVC = Zero,          \* once mutex
    initFlag = FALSE, initFlagVC = Zero,      \* orc.c: static int inited
    registry = FALSE,             \* targets/opcodes/rules registered (written by the init body)
    initCount = 0,
    inited = [o \in Onces |-> 0], initedVC = [o \in Onces |-> Zero],
    value = [o \in Onces |-> 0],  \* 0 = NULL, otherwise the thread whose body produced it
    bodyCount = [o \in Onces |-> 0],
    allocUsed = 0,                \* allocator state: number of used chunks
    \* last plain write / reads per location, for the race check
    lastW = [loc \in Locs |-> [t |-> 0, c |-> 0]],
    lastR = [loc \in Locs |-> Zero],
    race = "";

  define {
    \* the write (t,c) happens-before everything thread `me` does now
    Ordered(me, w) == w.t = 0 \/ w.t = me \/ w.c <= VC[me][w.t]
    ReadsOrdered(me, loc) == \A u \in Threads : u = me \/ lastR[loc][u] <= VC[me][u]
  }

  \* exactly one of these per label: advance the own component, optionally after
  \* joining the clock carried by a lock or by a release store
  macro Tick() { VC[self] := TickV(VC[self], self); }
  macro JoinTick(other) { VC[self] := TickV(Join(VC[self], other), self); }

  macro PlainRead(loc) {
    if (race = "" /\ ~Ordered(self, lastW[loc])) { race := "read of " \o ToString(loc); };
    lastR[loc][self] := VC[self][self];
  }
  macro PlainWrite(loc) {
    if (race = "" /\ (~Ordered(self, lastW[loc]) \/ ~ReadsOrdered(self, loc))) { race := "write of " \o ToString(loc); };
    lastW[loc] := [t |-> self, c |-> VC[self][self]];
  }

  procedure orc_init ()
    variable seen = FALSE;
  {
  i1: \* if (!inited)   -- outside the mutex
      seen := initFlag;
      if (AtomicInitFlag) { if (initFlag) { JoinTick(initFlagVC); } else { Tick(); }; }
      else { PlainRead(<<"initFlag", 0>>); Tick(); };
  i1b: if (seen) { return; };
  i2: await gm = 0; gm := self; JoinTick(gmVC);                          \* orc_global_mutex_lock
  i3: seen := initFlag;
      if (~AtomicInitFlag) { PlainRead(<<"initFlag", 0>>); };
      Tick();
  i3b: if (seen) { goto i6; };
  i4: \* _orc_debug_init ... orc_mips_init: fills the registries
      PlainWrite(<<"registry", 0>>); registry := TRUE; initCount := initCount + 1; Tick();
  i5: \* inited = TRUE
      if (AtomicInitFlag) { initFlag := TRUE; initFlagVC := VC[self]; }
      else { PlainWrite(<<"initFlag", 0>>); initFlag := TRUE; };
      Tick();
  i6: gmVC := VC[self]; gm := 0; Tick();                                 \* orc_global_mutex_unlock
      return;
  }

  \* compile + take_code as one wrapper body does: reads the registries, allocates under the global mutex
  procedure compile ()
  {
  c1: PlainRead(<<"registry", 0>>); assert registry; Tick();
  c2: await gm = 0; gm := self; JoinTick(gmVC);
  c3: PlainWrite(<<"alloc", 0>>); allocUsed := allocUsed + 1; Tick();
  c4: gmVC := VC[self]; gm := 0; Tick();
      return;
  }

  procedure free_code ()
  {
  f0: if (~LockedFree) { PlainWrite(<<"alloc", 0>>); Tick(); };       \* chunk->used = FALSE before the lock
  f1: await gm = 0; gm := self; JoinTick(gmVC);
  f2: PlainWrite(<<"alloc", 0>>); allocUsed := allocUsed - 1; Tick();
  f3: gmVC := VC[self]; gm := 0; Tick();
      return;
  }

  \* an orcc-generated wrapper: once-guarded initialisation, then use of the published code
  procedure wrapper (w)
    variables ld = 0, got = 0;
  {
  o1: \* inited = atomic_load_explicit (&once->inited, memory_order_acquire)
      ld := inited[w];
      if (inited[w] = 1) { JoinTick(initedVC[w]); } else { Tick(); };
  o1b: if (ld = 1) { goto o8; };
  o2: await om = 0; om := self; JoinTick(omVC);                           \* orc_once_mutex_lock
  o3: if (Recheck) {
        ld := inited[w];
        if (inited[w] = 1) { JoinTick(initedVC[w]); } else { Tick(); };
      } else { Tick(); };
  o3b: if (ld = 1) { goto o7; };
  o4: call orc_init ();
  o4b: call compile ();
  o5: bodyCount[w] := bodyCount[w] + 1;
      PlainWrite(<<"value", w>>); value[w] := self; Tick();               \* once->value = value
  o6: inited[w] := 1;                                                     \* atomic_store_explicit (release)
      if (ReleaseStore) { initedVC[w] := VC[self]; };
      Tick();
      got := self;
  o6b: omVC := VC[self]; om := 0; Tick();                                 \* orc_once_mutex_unlock (in leave)
      goto o9;
  o7: PlainRead(<<"value", w>>); got := value[w]; Tick();
  o7b: omVC := VC[self]; om := 0; Tick();
      goto o9;
  o8: PlainRead(<<"value", w>>); got := value[w]; Tick();
  o9: assert got # 0;       \* every caller sees the fully initialised code
      return;
  }

  fair process (thr \in Threads)
    variable todo = Onces;
  {
  t0: call orc_init ();
  t1: call compile ();
  t2: while (todo # {}) {
        with (x \in todo) { todo := todo \ {x}; call wrapper (x); };
      };
  t3: call free_code ();
  }
} *)
\* BEGIN TRANSLATION
CONSTANT defaultInitValue
VARIABLES pc, VC, gm, gmVC, om, omVC, initFlag, initFlagVC, registry, 
          initCount, inited, initedVC, value, bodyCount, allocUsed, lastW, 
          lastR, race, stack

(* define statement *)
Ordered(me, w) == w.t = 0 \/ w.t = me \/ w.c <= VC[me][w.t]
ReadsOrdered(me, loc) == \A u \in Threads : u = me \/ lastR[loc][u] <= VC[me][u]

VARIABLES seen, w, ld, got, todo

vars == << pc, VC, gm, gmVC, om, omVC, initFlag, initFlagVC, registry, 
           initCount, inited, initedVC, value, bodyCount, allocUsed, lastW, 
           lastR, race, stack, seen, w, ld, got, todo >>

ProcSet == (Threads)

Init == (* Global variables *)
        /\ VC = [t \in Threads |-> [u \in Threads |-> IF u = t THEN 1 ELSE 0]]
        /\ gm = 0
        /\ gmVC = Zero
        /\ om = 0
        /\ omVC = Zero
        /\ initFlag = FALSE
        /\ initFlagVC = Zero
        /\ registry = FALSE
        /\ initCount = 0
        /\ inited = [o \in Onces |-> 0]
        /\ initedVC = [o \in Onces |-> Zero]
        /\ value = [o \in Onces |-> 0]
        /\ bodyCount = [o \in Onces |-> 0]
        /\ allocUsed = 0
        /\ lastW = [loc \in Locs |-> [t |-> 0, c |-> 0]]
        /\ lastR = [loc \in Locs |-> Zero]
        /\ race = ""
        (* Procedure orc_init *)
        /\ seen = [ self \in ProcSet |-> FALSE]
        (* Procedure wrapper *)
        /\ w = [ self \in ProcSet |-> defaultInitValue]
        /\ ld = [ self \in ProcSet |-> 0]
        /\ got = [ self \in ProcSet |-> 0]
        (* Process thr *)
        /\ todo = [self \in Threads |-> Onces]
        /\ stack = [self \in ProcSet |-> << >>]
        /\ pc = [self \in ProcSet |-> "t0"]

i1(self) == /\ pc[self] = "i1"
            /\ seen' = [seen EXCEPT ![self] = initFlag]
            /\ IF AtomicInitFlag
                  THEN /\ IF initFlag
                             THEN /\ VC' = [VC EXCEPT ![self] = TickV(Join(VC[self], initFlagVC), self)]
                             ELSE /\ VC' = [VC EXCEPT ![self] = TickV(VC[self], self)]
                       /\ UNCHANGED << lastR, race >>
                  ELSE /\ IF race = "" /\ ~Ordered(self, lastW[(<<"initFlag", 0>>)])
                             THEN /\ race' = "read of " \o ToString((<<"initFlag", 0>>))
                             ELSE /\ TRUE
                                  /\ race' = race
                       /\ lastR' = [lastR EXCEPT ![(<<"initFlag", 0>>)][self] = VC[self][self]]
                       /\ VC' = [VC EXCEPT ![self] = TickV(VC[self], self)]
            /\ pc' = [pc EXCEPT ![self] = "i1b"]
            /\ UNCHANGED << gm, gmVC, om, omVC, initFlag, initFlagVC, registry, 
                            initCount, inited, initedVC, value, bodyCount, 
                            allocUsed, lastW, stack, w, ld, got, todo >>

i1b(self) == /\ pc[self] = "i1b"
             /\ IF seen[self]
                   THEN /\ pc' = [pc EXCEPT ![self] = Head(stack[self]).pc]
                        /\ seen' = [seen EXCEPT ![self] = Head(stack[self]).seen]
                        /\ stack' = [stack EXCEPT ![self] = Tail(stack[self])]
                   ELSE /\ pc' = [pc EXCEPT ![self] = "i2"]
                        /\ UNCHANGED << stack, seen >>
             /\ UNCHANGED << VC, gm, gmVC, om, omVC, initFlag, initFlagVC, 
                             registry, initCount, inited, initedVC, value, 
                             bodyCount, allocUsed, lastW, lastR, race, w, ld, 
                             got, todo >>

i2(self) == /\ pc[self] = "i2"
            /\ gm = 0
            /\ gm' = self
            /\ VC' = [VC EXCEPT ![self] = TickV(Join(VC[self], gmVC), self)]
            /\ pc' = [pc EXCEPT ![self] = "i3"]
            /\ UNCHANGED << gmVC, om, omVC, initFlag, initFlagVC, registry, 
                            initCount, inited, initedVC, value, bodyCount, 
                            allocUsed, lastW, lastR, race, stack, seen, w, ld, 
                            got, todo >>

i3(self) == /\ pc[self] = "i3"
            /\ seen' = [seen EXCEPT ![self] = initFlag]
            /\ IF ~AtomicInitFlag
                  THEN /\ IF race = "" /\ ~Ordered(self, lastW[(<<"initFlag", 0>>)])
                             THEN /\ race' = "read of " \o ToString((<<"initFlag", 0>>))
                             ELSE /\ TRUE
                                  /\ race' = race
                       /\ lastR' = [lastR EXCEPT ![(<<"initFlag", 0>>)][self] = VC[self][self]]
                  ELSE /\ TRUE
                       /\ UNCHANGED << lastR, race >>
            /\ VC' = [VC EXCEPT ![self] = TickV(VC[self], self)]
            /\ pc' = [pc EXCEPT ![self] = "i3b"]
            /\ UNCHANGED << gm, gmVC, om, omVC, initFlag, initFlagVC, registry, 
                            initCount, inited, initedVC, value, bodyCount, 
                            allocUsed, lastW, stack, w, ld, got, todo >>

i3b(self) == /\ pc[self] = "i3b"
             /\ IF seen[self]
                   THEN /\ pc' = [pc EXCEPT ![self] = "i6"]
                   ELSE /\ pc' = [pc EXCEPT ![self] = "i4"]
             /\ UNCHANGED << VC, gm, gmVC, om, omVC, initFlag, initFlagVC, 
                             registry, initCount, inited, initedVC, value, 
                             bodyCount, allocUsed, lastW, lastR, race, stack, 
                             seen, w, ld, got, todo >>

i4(self) == /\ pc[self] = "i4"
            /\ IF race = "" /\ (~Ordered(self, lastW[(<<"registry", 0>>)]) \/ ~ReadsOrdered(self, (<<"registry", 0>>)))
                  THEN /\ race' = "write of " \o ToString((<<"registry", 0>>))
                  ELSE /\ TRUE
                       /\ race' = race
            /\ lastW' = [lastW EXCEPT ![(<<"registry", 0>>)] = [t |-> self, c |-> VC[self][self]]]
            /\ registry' = TRUE
            /\ initCount' = initCount + 1
            /\ VC' = [VC EXCEPT ![self] = TickV(VC[self], self)]
            /\ pc' = [pc EXCEPT ![self] = "i5"]
            /\ UNCHANGED << gm, gmVC, om, omVC, initFlag, initFlagVC, inited, 
                            initedVC, value, bodyCount, allocUsed, lastR, 
                            stack, seen, w, ld, got, todo >>

i5(self) == /\ pc[self] = "i5"
            /\ IF AtomicInitFlag
                  THEN /\ initFlag' = TRUE
                       /\ initFlagVC' = VC[self]
                       /\ UNCHANGED << lastW, race >>
                  ELSE /\ IF race = "" /\ (~Ordered(self, lastW[(<<"initFlag", 0>>)]) \/ ~ReadsOrdered(self, (<<"initFlag", 0>>)))
                             THEN /\ race' = "write of " \o ToString((<<"initFlag", 0>>))
                             ELSE /\ TRUE
                                  /\ race' = race
                       /\ lastW' = [lastW EXCEPT ![(<<"initFlag", 0>>)] = [t |-> self, c |-> VC[self][self]]]
                       /\ initFlag' = TRUE
                       /\ UNCHANGED initFlagVC
            /\ VC' = [VC EXCEPT ![self] = TickV(VC[self], self)]
            /\ pc' = [pc EXCEPT ![self] = "i6"]
            /\ UNCHANGED << gm, gmVC, om, omVC, registry, initCount, inited, 
                            initedVC, value, bodyCount, allocUsed, lastR, 
                            stack, seen, w, ld, got, todo >>

i6(self) == /\ pc[self] = "i6"
            /\ gmVC' = VC[self]
            /\ gm' = 0
            /\ VC' = [VC EXCEPT ![self] = TickV(VC[self], self)]
            /\ pc' = [pc EXCEPT ![self] = Head(stack[self]).pc]
            /\ seen' = [seen EXCEPT ![self] = Head(stack[self]).seen]
            /\ stack' = [stack EXCEPT ![self] = Tail(stack[self])]
            /\ UNCHANGED << om, omVC, initFlag, initFlagVC, registry, 
                            initCount, inited, initedVC, value, bodyCount, 
                            allocUsed, lastW, lastR, race, w, ld, got, todo >>

orc_init(self) == i1(self) \/ i1b(self) \/ i2(self) \/ i3(self)
                     \/ i3b(self) \/ i4(self) \/ i5(self) \/ i6(self)

c1(self) == /\ pc[self] = "c1"
            /\ IF race = "" /\ ~Ordered(self, lastW[(<<"registry", 0>>)])
                  THEN /\ race' = "read of " \o ToString((<<"registry", 0>>))
                  ELSE /\ TRUE
                       /\ race' = race
            /\ lastR' = [lastR EXCEPT ![(<<"registry", 0>>)][self] = VC[self][self]]
            /\ Assert(registry, 
                      "Failure of assertion at line 98, column 37.")
            /\ VC' = [VC EXCEPT ![self] = TickV(VC[self], self)]
            /\ pc' = [pc EXCEPT ![self] = "c2"]
            /\ UNCHANGED << gm, gmVC, om, omVC, initFlag, initFlagVC, registry, 
                            initCount, inited, initedVC, value, bodyCount, 
                            allocUsed, lastW, stack, seen, w, ld, got, todo >>

c2(self) == /\ pc[self] = "c2"
            /\ gm = 0
            /\ gm' = self
            /\ VC' = [VC EXCEPT ![self] = TickV(Join(VC[self], gmVC), self)]
            /\ pc' = [pc EXCEPT ![self] = "c3"]
            /\ UNCHANGED << gmVC, om, omVC, initFlag, initFlagVC, registry, 
                            initCount, inited, initedVC, value, bodyCount, 
                            allocUsed, lastW, lastR, race, stack, seen, w, ld, 
                            got, todo >>

c3(self) == /\ pc[self] = "c3"
            /\ IF race = "" /\ (~Ordered(self, lastW[(<<"alloc", 0>>)]) \/ ~ReadsOrdered(self, (<<"alloc", 0>>)))
                  THEN /\ race' = "write of " \o ToString((<<"alloc", 0>>))
                  ELSE /\ TRUE
                       /\ race' = race
            /\ lastW' = [lastW EXCEPT ![(<<"alloc", 0>>)] = [t |-> self, c |-> VC[self][self]]]
            /\ allocUsed' = allocUsed + 1
            /\ VC' = [VC EXCEPT ![self] = TickV(VC[self], self)]
            /\ pc' = [pc EXCEPT ![self] = "c4"]
            /\ UNCHANGED << gm, gmVC, om, omVC, initFlag, initFlagVC, registry, 
                            initCount, inited, initedVC, value, bodyCount, 
                            lastR, stack, seen, w, ld, got, todo >>

c4(self) == /\ pc[self] = "c4"
            /\ gmVC' = VC[self]
            /\ gm' = 0
            /\ VC' = [VC EXCEPT ![self] = TickV(VC[self], self)]
            /\ pc' = [pc EXCEPT ![self] = Head(stack[self]).pc]
            /\ stack' = [stack EXCEPT ![self] = Tail(stack[self])]
            /\ UNCHANGED << om, omVC, initFlag, initFlagVC, registry, 
                            initCount, inited, initedVC, value, bodyCount, 
                            allocUsed, lastW, lastR, race, seen, w, ld, got, 
                            todo >>

compile(self) == c1(self) \/ c2(self) \/ c3(self) \/ c4(self)

f0(self) == /\ pc[self] = "f0"
            /\ IF ~LockedFree
                  THEN /\ IF race = "" /\ (~Ordered(self, lastW[(<<"alloc", 0>>)]) \/ ~ReadsOrdered(self, (<<"alloc", 0>>)))
                             THEN /\ race' = "write of " \o ToString((<<"alloc", 0>>))
                             ELSE /\ TRUE
                                  /\ race' = race
                       /\ lastW' = [lastW EXCEPT ![(<<"alloc", 0>>)] = [t |-> self, c |-> VC[self][self]]]
                       /\ VC' = [VC EXCEPT ![self] = TickV(VC[self], self)]
                  ELSE /\ TRUE
                       /\ UNCHANGED << VC, lastW, race >>
            /\ pc' = [pc EXCEPT ![self] = "f1"]
            /\ UNCHANGED << gm, gmVC, om, omVC, initFlag, initFlagVC, registry, 
                            initCount, inited, initedVC, value, bodyCount, 
                            allocUsed, lastR, stack, seen, w, ld, got, todo >>

f1(self) == /\ pc[self] = "f1"
            /\ gm = 0
            /\ gm' = self
            /\ VC' = [VC EXCEPT ![self] = TickV(Join(VC[self], gmVC), self)]
            /\ pc' = [pc EXCEPT ![self] = "f2"]
            /\ UNCHANGED << gmVC, om, omVC, initFlag, initFlagVC, registry, 
                            initCount, inited, initedVC, value, bodyCount, 
                            allocUsed, lastW, lastR, race, stack, seen, w, ld, 
                            got, todo >>

f2(self) == /\ pc[self] = "f2"
            /\ IF race = "" /\ (~Ordered(self, lastW[(<<"alloc", 0>>)]) \/ ~ReadsOrdered(self, (<<"alloc", 0>>)))
                  THEN /\ race' = "write of " \o ToString((<<"alloc", 0>>))
                  ELSE /\ TRUE
                       /\ race' = race
            /\ lastW' = [lastW EXCEPT ![(<<"alloc", 0>>)] = [t |-> self, c |-> VC[self][self]]]
            /\ allocUsed' = allocUsed - 1
            /\ VC' = [VC EXCEPT ![self] = TickV(VC[self], self)]
            /\ pc' = [pc EXCEPT ![self] = "f3"]
            /\ UNCHANGED << gm, gmVC, om, omVC, initFlag, initFlagVC, registry, 
                            initCount, inited, initedVC, value, bodyCount, 
                            lastR, stack, seen, w, ld, got, todo >>

f3(self) == /\ pc[self] = "f3"
            /\ gmVC' = VC[self]
            /\ gm' = 0
            /\ VC' = [VC EXCEPT ![self] = TickV(VC[self], self)]
            /\ pc' = [pc EXCEPT ![self] = Head(stack[self]).pc]
            /\ stack' = [stack EXCEPT ![self] = Tail(stack[self])]
            /\ UNCHANGED << om, omVC, initFlag, initFlagVC, registry, 
                            initCount, inited, initedVC, value, bodyCount, 
                            allocUsed, lastW, lastR, race, seen, w, ld, got, 
                            todo >>

free_code(self) == f0(self) \/ f1(self) \/ f2(self) \/ f3(self)

o1(self) == /\ pc[self] = "o1"
            /\ ld' = [ld EXCEPT ![self] = inited[w[self]]]
            /\ IF inited[w[self]] = 1
                  THEN /\ VC' = [VC EXCEPT ![self] = TickV(Join(VC[self], (initedVC[w[self]])), self)]
                  ELSE /\ VC' = [VC EXCEPT ![self] = TickV(VC[self], self)]
            /\ pc' = [pc EXCEPT ![self] = "o1b"]
            /\ UNCHANGED << gm, gmVC, om, omVC, initFlag, initFlagVC, registry, 
                            initCount, inited, initedVC, value, bodyCount, 
                            allocUsed, lastW, lastR, race, stack, seen, w, got, 
                            todo >>

o1b(self) == /\ pc[self] = "o1b"
             /\ IF ld[self] = 1
                   THEN /\ pc' = [pc EXCEPT ![self] = "o8"]
                   ELSE /\ pc' = [pc EXCEPT ![self] = "o2"]
             /\ UNCHANGED << VC, gm, gmVC, om, omVC, initFlag, initFlagVC, 
                             registry, initCount, inited, initedVC, value, 
                             bodyCount, allocUsed, lastW, lastR, race, stack, 
                             seen, w, ld, got, todo >>

o2(self) == /\ pc[self] = "o2"
            /\ om = 0
            /\ om' = self
            /\ VC' = [VC EXCEPT ![self] = TickV(Join(VC[self], omVC), self)]
            /\ pc' = [pc EXCEPT ![self] = "o3"]
            /\ UNCHANGED << gm, gmVC, omVC, initFlag, initFlagVC, registry, 
                            initCount, inited, initedVC, value, bodyCount, 
                            allocUsed, lastW, lastR, race, stack, seen, w, ld, 
                            got, todo >>

o3(self) == /\ pc[self] = "o3"
            /\ IF Recheck
                  THEN /\ ld' = [ld EXCEPT ![self] = inited[w[self]]]
                       /\ IF inited[w[self]] = 1
                             THEN /\ VC' = [VC EXCEPT ![self] = TickV(Join(VC[self], (initedVC[w[self]])), self)]
                             ELSE /\ VC' = [VC EXCEPT ![self] = TickV(VC[self], self)]
                  ELSE /\ VC' = [VC EXCEPT ![self] = TickV(VC[self], self)]
                       /\ ld' = ld
            /\ pc' = [pc EXCEPT ![self] = "o3b"]
            /\ UNCHANGED << gm, gmVC, om, omVC, initFlag, initFlagVC, registry, 
                            initCount, inited, initedVC, value, bodyCount, 
                            allocUsed, lastW, lastR, race, stack, seen, w, got, 
                            todo >>

o3b(self) == /\ pc[self] = "o3b"
             /\ IF ld[self] = 1
                   THEN /\ pc' = [pc EXCEPT ![self] = "o7"]
                   ELSE /\ pc' = [pc EXCEPT ![self] = "o4"]
             /\ UNCHANGED << VC, gm, gmVC, om, omVC, initFlag, initFlagVC, 
                             registry, initCount, inited, initedVC, value, 
                             bodyCount, allocUsed, lastW, lastR, race, stack, 
                             seen, w, ld, got, todo >>

o4(self) == /\ pc[self] = "o4"
            /\ stack' = [stack EXCEPT ![self] = << [ procedure |->  "orc_init",
                                                     pc        |->  "o4b",
                                                     seen      |->  seen[self] ] >>
                                                 \o stack[self]]
            /\ seen' = [seen EXCEPT ![self] = FALSE]
            /\ pc' = [pc EXCEPT ![self] = "i1"]
            /\ UNCHANGED << VC, gm, gmVC, om, omVC, initFlag, initFlagVC, 
                            registry, initCount, inited, initedVC, value, 
                            bodyCount, allocUsed, lastW, lastR, race, w, ld, 
                            got, todo >>

o4b(self) == /\ pc[self] = "o4b"
             /\ stack' = [stack EXCEPT ![self] = << [ procedure |->  "compile",
                                                      pc        |->  "o5" ] >>
                                                  \o stack[self]]
             /\ pc' = [pc EXCEPT ![self] = "c1"]
             /\ UNCHANGED << VC, gm, gmVC, om, omVC, initFlag, initFlagVC, 
                             registry, initCount, inited, initedVC, value, 
                             bodyCount, allocUsed, lastW, lastR, race, seen, w, 
                             ld, got, todo >>

o5(self) == /\ pc[self] = "o5"
            /\ bodyCount' = [bodyCount EXCEPT ![w[self]] = bodyCount[w[self]] + 1]
            /\ IF race = "" /\ (~Ordered(self, lastW[(<<"value", w[self]>>)]) \/ ~ReadsOrdered(self, (<<"value", w[self]>>)))
                  THEN /\ race' = "write of " \o ToString((<<"value", w[self]>>))
                  ELSE /\ TRUE
                       /\ race' = race
            /\ lastW' = [lastW EXCEPT ![(<<"value", w[self]>>)] = [t |-> self, c |-> VC[self][self]]]
            /\ value' = [value EXCEPT ![w[self]] = self]
            /\ VC' = [VC EXCEPT ![self] = TickV(VC[self], self)]
            /\ pc' = [pc EXCEPT ![self] = "o6"]
            /\ UNCHANGED << gm, gmVC, om, omVC, initFlag, initFlagVC, registry, 
                            initCount, inited, initedVC, allocUsed, lastR, 
                            stack, seen, w, ld, got, todo >>

o6(self) == /\ pc[self] = "o6"
            /\ inited' = [inited EXCEPT ![w[self]] = 1]
            /\ IF ReleaseStore
                  THEN /\ initedVC' = [initedVC EXCEPT ![w[self]] = VC[self]]
                  ELSE /\ TRUE
                       /\ UNCHANGED initedVC
            /\ VC' = [VC EXCEPT ![self] = TickV(VC[self], self)]
            /\ got' = [got EXCEPT ![self] = self]
            /\ pc' = [pc EXCEPT ![self] = "o6b"]
            /\ UNCHANGED << gm, gmVC, om, omVC, initFlag, initFlagVC, registry, 
                            initCount, value, bodyCount, allocUsed, lastW, 
                            lastR, race, stack, seen, w, ld, todo >>

o6b(self) == /\ pc[self] = "o6b"
             /\ omVC' = VC[self]
             /\ om' = 0
             /\ VC' = [VC EXCEPT ![self] = TickV(VC[self], self)]
             /\ pc' = [pc EXCEPT ![self] = "o9"]
             /\ UNCHANGED << gm, gmVC, initFlag, initFlagVC, registry, 
                             initCount, inited, initedVC, value, bodyCount, 
                             allocUsed, lastW, lastR, race, stack, seen, w, ld, 
                             got, todo >>

o7(self) == /\ pc[self] = "o7"
            /\ IF race = "" /\ ~Ordered(self, lastW[(<<"value", w[self]>>)])
                  THEN /\ race' = "read of " \o ToString((<<"value", w[self]>>))
                  ELSE /\ TRUE
                       /\ race' = race
            /\ lastR' = [lastR EXCEPT ![(<<"value", w[self]>>)][self] = VC[self][self]]
            /\ got' = [got EXCEPT ![self] = value[w[self]]]
            /\ VC' = [VC EXCEPT ![self] = TickV(VC[self], self)]
            /\ pc' = [pc EXCEPT ![self] = "o7b"]
            /\ UNCHANGED << gm, gmVC, om, omVC, initFlag, initFlagVC, registry, 
                            initCount, inited, initedVC, value, bodyCount, 
                            allocUsed, lastW, stack, seen, w, ld, todo >>

o7b(self) == /\ pc[self] = "o7b"
             /\ omVC' = VC[self]
             /\ om' = 0
             /\ VC' = [VC EXCEPT ![self] = TickV(VC[self], self)]
             /\ pc' = [pc EXCEPT ![self] = "o9"]
             /\ UNCHANGED << gm, gmVC, initFlag, initFlagVC, registry, 
                             initCount, inited, initedVC, value, bodyCount, 
                             allocUsed, lastW, lastR, race, stack, seen, w, ld, 
                             got, todo >>

o8(self) == /\ pc[self] = "o8"
            /\ IF race = "" /\ ~Ordered(self, lastW[(<<"value", w[self]>>)])
                  THEN /\ race' = "read of " \o ToString((<<"value", w[self]>>))
                  ELSE /\ TRUE
                       /\ race' = race
            /\ lastR' = [lastR EXCEPT ![(<<"value", w[self]>>)][self] = VC[self][self]]
            /\ got' = [got EXCEPT ![self] = value[w[self]]]
            /\ VC' = [VC EXCEPT ![self] = TickV(VC[self], self)]
            /\ pc' = [pc EXCEPT ![self] = "o9"]
            /\ UNCHANGED << gm, gmVC, om, omVC, initFlag, initFlagVC, registry, 
                            initCount, inited, initedVC, value, bodyCount, 
                            allocUsed, lastW, stack, seen, w, ld, todo >>

o9(self) == /\ pc[self] = "o9"
            /\ Assert(got[self] # 0, 
                      "Failure of assertion at line 142, column 7.")
            /\ pc' = [pc EXCEPT ![self] = Head(stack[self]).pc]
            /\ ld' = [ld EXCEPT ![self] = Head(stack[self]).ld]
            /\ got' = [got EXCEPT ![self] = Head(stack[self]).got]
            /\ w' = [w EXCEPT ![self] = Head(stack[self]).w]
            /\ stack' = [stack EXCEPT ![self] = Tail(stack[self])]
            /\ UNCHANGED << VC, gm, gmVC, om, omVC, initFlag, initFlagVC, 
                            registry, initCount, inited, initedVC, value, 
                            bodyCount, allocUsed, lastW, lastR, race, seen, 
                            todo >>

wrapper(self) == o1(self) \/ o1b(self) \/ o2(self) \/ o3(self) \/ o3b(self)
                    \/ o4(self) \/ o4b(self) \/ o5(self) \/ o6(self)
                    \/ o6b(self) \/ o7(self) \/ o7b(self) \/ o8(self)
                    \/ o9(self)

t0(self) == /\ pc[self] = "t0"
            /\ stack' = [stack EXCEPT ![self] = << [ procedure |->  "orc_init",
                                                     pc        |->  "t1",
                                                     seen      |->  seen[self] ] >>
                                                 \o stack[self]]
            /\ seen' = [seen EXCEPT ![self] = FALSE]
            /\ pc' = [pc EXCEPT ![self] = "i1"]
            /\ UNCHANGED << VC, gm, gmVC, om, omVC, initFlag, initFlagVC, 
                            registry, initCount, inited, initedVC, value, 
                            bodyCount, allocUsed, lastW, lastR, race, w, ld, 
                            got, todo >>

t1(self) == /\ pc[self] = "t1"
            /\ stack' = [stack EXCEPT ![self] = << [ procedure |->  "compile",
                                                     pc        |->  "t2" ] >>
                                                 \o stack[self]]
            /\ pc' = [pc EXCEPT ![self] = "c1"]
            /\ UNCHANGED << VC, gm, gmVC, om, omVC, initFlag, initFlagVC, 
                            registry, initCount, inited, initedVC, value, 
                            bodyCount, allocUsed, lastW, lastR, race, seen, w, 
                            ld, got, todo >>

t2(self) == /\ pc[self] = "t2"
            /\ IF todo[self] # {}
                  THEN /\ \E x \in todo[self]:
                            /\ todo' = [todo EXCEPT ![self] = todo[self] \ {x}]
                            /\ /\ stack' = [stack EXCEPT ![self] = << [ procedure |->  "wrapper",
                                                                        pc        |->  "t2",
                                                                        ld        |->  ld[self],
                                                                        got       |->  got[self],
                                                                        w         |->  w[self] ] >>
                                                                    \o stack[self]]
                               /\ w' = [w EXCEPT ![self] = x]
                            /\ ld' = [ld EXCEPT ![self] = 0]
                            /\ got' = [got EXCEPT ![self] = 0]
                            /\ pc' = [pc EXCEPT ![self] = "o1"]
                  ELSE /\ pc' = [pc EXCEPT ![self] = "t3"]
                       /\ UNCHANGED << stack, w, ld, got, todo >>
            /\ UNCHANGED << VC, gm, gmVC, om, omVC, initFlag, initFlagVC, 
                            registry, initCount, inited, initedVC, value, 
                            bodyCount, allocUsed, lastW, lastR, race, seen >>

t3(self) == /\ pc[self] = "t3"
            /\ stack' = [stack EXCEPT ![self] = << [ procedure |->  "free_code",
                                                     pc        |->  "Done" ] >>
                                                 \o stack[self]]
            /\ pc' = [pc EXCEPT ![self] = "f0"]
            /\ UNCHANGED << VC, gm, gmVC, om, omVC, initFlag, initFlagVC, 
                            registry, initCount, inited, initedVC, value, 
                            bodyCount, allocUsed, lastW, lastR, race, seen, w, 
                            ld, got, todo >>

thr(self) == t0(self) \/ t1(self) \/ t2(self) \/ t3(self)

(* Allow infinite stuttering to prevent deadlock on termination. *)
Terminating == /\ \A self \in ProcSet: pc[self] = "Done"
               /\ UNCHANGED vars

Next == (\E self \in ProcSet:  \/ orc_init(self) \/ compile(self)
                               \/ free_code(self) \/ wrapper(self))
           \/ (\E self \in Threads: thr(self))
           \/ Terminating

Spec == /\ Init /\ [][Next]_vars
        /\ \A self \in Threads : /\ WF_vars(thr(self))
                                 /\ WF_vars(orc_init(self))
                                 /\ WF_vars(compile(self))
                                 /\ WF_vars(wrapper(self))
                                 /\ WF_vars(free_code(self))

Termination == <>(\A self \in ProcSet: pc[self] = "Done")

\* END TRANSLATION

InitOnce == initCount <= 1
OnceOnce == \A o \in Onces : bodyCount[o] <= 1
NoRace == race = ""
AllocSane == allocUsed \in 0..(Cardinality(Threads) + Cardinality(Onces))
=============================================================================
