------------------------------ MODULE CodeMem ------------------------------
(***************************************************************************)
(* Implementation-shaped model of orc/orccodemem.c: regions are lists of   *)
(* chunks [off, size, used]; one action per critical section of the global *)
(* mutex:                                                                  *)
(*   Alloc(h, size)  = orc_code_allocate_codemem: first-fit search over    *)
(*                     regions in creation order and chunks in address     *)
(*                     order, region creation when nothing fits, split of  *)
(*                     the chosen chunk, used := TRUE                      *)
(*   Free(h)         = orc_code_chunk_free: used := FALSE, merge with the  *)
(*                     next chunk if free, then the previous one if free   *)
(* TLC checks the structural invariants and that this module refines       *)
(* CodeMemAbs.  With hist/Rec it also dumps one behaviour per edge of the  *)
(* reachable graph for replay into the real allocator (bin/check C09).     *)
(***************************************************************************)
EXTENDS Naturals, FiniteSets, Sequences, TLC, Json

CONSTANTS Handles, RSize, MaxRegions, Sizes,
          OsMayFail,     \* TRUE: obtaining a region may fail (mmap chain exhausted)
          MaxHist,       \* bound on behaviour length for the dump (0 = no bound)
          DumpFile       \* "" = do not dump

VARIABLES regions,   \* Seq of regions; a region = Seq of [off, size, used]
          where,     \* [Handles -> [r, off]]  (r = 0: not live)
          peak,      \* ghost: largest number of simultaneously live objects
          stranded,  \* ghost: regions created for requests that could never fit
          hist       \* ghost: the operations so far (hidden by VIEW)

vars == <<regions, where, peak, stranded, hist>>

NoWhere == [r |-> 0, off |-> 0]
IsLive(h) == where[h].r # 0
NLive(w) == Cardinality({h \in Handles : w[h].r # 0})

ChunkIdx(r, off) == CHOOSE i \in 1..Len(regions[r]) : regions[r][i].off = off

\* first fit: first region (creation order), first chunk (address order)
Fits(r, i, size) == ~regions[r][i].used /\ size <= regions[r][i].size
FitPairs(size) == { <<r, i>> \in (1..Len(regions)) \X (1..RSize) :
                      i <= Len(regions[r]) /\ Fits(r, i, size) }
Before(p, q) == p[1] < q[1] \/ (p[1] = q[1] /\ p[2] <= q[2])
FirstFit(size) == CHOOSE p \in FitPairs(size) : \A q \in FitPairs(size) : Before(p, q)

\* take `size` from chunk i of region r (split when larger)
Take(reg, i, size) ==
  LET c == reg[i] IN
  IF c.size > size
    THEN SubSeq(reg, 1, i - 1)
         \o << [off |-> c.off, size |-> size, used |-> TRUE],
               [off |-> c.off + size, size |-> c.size - size, used |-> FALSE] >>
         \o SubSeq(reg, i + 1, Len(reg))
    ELSE [reg EXCEPT ![i].used = TRUE]

FreshRegion == << [off |-> 0, size |-> RSize, used |-> FALSE] >>

Init ==
  /\ regions = <<>>
  /\ where = [h \in Handles |-> NoWhere]
  /\ peak = 0
  /\ stranded = 0
  /\ hist = <<>>
  /\ TLCSet(1, <<>>)

Record(op) == hist' = Append(hist, op)

Alloc(h, size) ==
  /\ ~IsLive(h)
  /\ IF FitPairs(size) # {}
       THEN LET p == FirstFit(size) IN
            /\ regions' = [regions EXCEPT ![p[1]] = Take(@, p[2], size)]
            /\ where' = [where EXCEPT ![h] = [r |-> p[1], off |-> regions[p[1]][p[2]].off]]
            /\ UNCHANGED stranded
       ELSE /\ Len(regions) < MaxRegions
            /\ IF size <= RSize
                 THEN /\ regions' = Append(regions, Take(FreshRegion, 1, size))
                      /\ where' = [where EXCEPT ![h] = [r |-> Len(regions) + 1, off |-> 0]]
                      /\ UNCHANGED stranded
                 ELSE \* the code creates the region, finds it too small, returns NULL
                      /\ regions' = Append(regions, FreshRegion)
                      /\ stranded' = stranded + 1
                      /\ UNCHANGED where
  /\ peak' = IF NLive(where') > peak THEN NLive(where') ELSE peak
  /\ Record([op |-> "A", h |-> h, size |-> size])

\* orc_code_region_new() returned NULL
AllocNoMem(h, size) ==
  /\ OsMayFail
  /\ ~IsLive(h)
  /\ FitPairs(size) = {}
  /\ UNCHANGED <<regions, where, peak, stranded>>
  /\ Record([op |-> "N", h |-> h, size |-> size])

MergeNext(reg, i) ==   \* chunk i absorbs chunk i+1
  SubSeq(reg, 1, i - 1)
  \o << [reg[i] EXCEPT !.size = reg[i].size + reg[i + 1].size] >>
  \o SubSeq(reg, i + 2, Len(reg))

Free(h) ==
  /\ IsLive(h)
  /\ LET r == where[h].r
         i == ChunkIdx(r, where[h].off)
         r0 == [regions[r] EXCEPT ![i].used = FALSE]
         r1 == IF i < Len(r0) /\ ~r0[i + 1].used THEN MergeNext(r0, i) ELSE r0
         r2 == IF i > 1 /\ ~r1[i - 1].used THEN MergeNext(r1, i - 1) ELSE r1
     IN regions' = [regions EXCEPT ![r] = r2]
  /\ where' = [where EXCEPT ![h] = NoWhere]
  /\ UNCHANGED <<peak, stranded>>
  /\ Record([op |-> "F", h |-> h, size |-> 0])

\* handles are interchangeable: a new object always takes the smallest unused
\* identity (symmetry reduction by construction; Free may pick any live one)
Fresh(h) == ~IsLive(h) /\ \A g \in Handles : g < h => IsLive(g)

DoFree   == \E h \in Handles : Free(h)
DoAlloc  == \E h \in Handles : Fresh(h) /\ \E s \in Sizes : Alloc(h, s)
DoNoMem  == \E h \in Handles : Fresh(h) /\ \E s \in Sizes : AllocNoMem(h, s)

Next == DoFree \/ DoAlloc \/ DoNoMem

Spec == Init /\ [][Next]_vars

-----------------------------------------------------------------------------
(* Structural invariants named by the property *)

Tiling ==       \* chunks of a region tile [0, RSize) in address order
  \A r \in 1..Len(regions) :
    /\ Len(regions[r]) >= 1
    /\ regions[r][1].off = 0
    /\ \A i \in 1..Len(regions[r]) :
         /\ regions[r][i].size >= 1
         /\ IF i < Len(regions[r])
              THEN regions[r][i + 1].off = regions[r][i].off + regions[r][i].size
              ELSE regions[r][i].off + regions[r][i].size = RSize

Coalesced ==    \* no two adjacent free chunks
  \A r \in 1..Len(regions) : \A i \in 1..(Len(regions[r]) - 1) :
    regions[r][i].used \/ regions[r][i + 1].used

UsedIsLive ==   \* used chunks are exactly the live objects
  /\ \A h \in Handles : IsLive(h) =>
        /\ where[h].r \in 1..Len(regions)
        /\ \E i \in 1..Len(regions[where[h].r]) :
             regions[where[h].r][i].off = where[h].off /\ regions[where[h].r][i].used
  /\ \A h1, h2 \in Handles : (h1 # h2 /\ IsLive(h1) /\ IsLive(h2)) => where[h1] # where[h2]
  /\ \A r \in 1..Len(regions) :
       Cardinality({i \in 1..Len(regions[r]) : regions[r][i].used})
         = Cardinality({h \in Handles : where[h].r = r})

\* a bounded working set bounds the number of regions
RegionBound == Len(regions) <= peak + stranded

-----------------------------------------------------------------------------
(* Refinement of the property-level specification *)

ChunkSize(h) == regions[where[h].r][ChunkIdx(where[h].r, where[h].off)].size

Abs == INSTANCE CodeMemAbs WITH
         nreg <- Len(regions),
         live <- [h \in Handles |->
                    IF IsLive(h)
                      THEN [r |-> where[h].r, off |-> where[h].off, size |-> ChunkSize(h)]
                      ELSE [r |-> 0, off |-> 0, size |-> 0]]

AbsSpec == Abs!ASpec
AbsNoOverlap == Abs!NoOverlap
AbsTypeOK == Abs!TypeOK

-----------------------------------------------------------------------------
(* Behaviour dump: one line per generated transition (edge), carrying the   *)
(* BFS-shortest operation sequence reaching it and the predicted state      *)
(* after every operation is left to the replayer (it re-runs the model via  *)
(* the recorded trace).  VIEW hides hist/peak so each abstract state is     *)
(* explored once.                                                           *)

View == <<regions, where, stranded, peak>>

Bounded == MaxHist = 0 \/ Len(hist) < MaxHist

RecEdge ==
  \/ DumpFile = ""
  \/ TLCSet(1, Append(TLCGet(1),
        [path |-> hist', nreg |-> Len(regions')]))

DumpPost == DumpFile = "" \/ ndJsonSerialize(DumpFile, TLCGet(1))
=============================================================================
