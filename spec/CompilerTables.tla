-------------------------- MODULE CompilerTables --------------------------
(***************************************************************************)
(* How program construction and the compiler's rewrite passes fill Orc's   *)
(* fixed-capacity tables (C05):                                            *)
(*   OrcProgram.insns[ORC_N_INSNS = 100]        orc_program_append*        *)
(*   OrcCompiler.insns[ORC_N_INSNS = 100]       orc_compiler_rewrite_insns *)
(*       one load per array source, one loadp per not-yet-loaded           *)
(*       (constant|parameter, size), the instruction, one store per array  *)
(*       destination                                                       *)
(*   OrcCompiler.vars[ORC_N_COMPILER_VARIABLES = 96]                       *)
(*       slot ORC_VAR_T1(32) + n_temp_vars + n_dup_vars for every          *)
(*       temporary created by the loads/stores above                       *)
(*       (orc_compiler_new_temporary) and for every re-written temporary   *)
(*       (orc_compiler_dup_temporary in orc_compiler_rewrite_vars)         *)
(* A program is a sequence of instruction shapes.  The design requires     *)
(* that a table is never indexed past its end: an overrun must be turned   *)
(* into an error result (CapacityError).  Checks = FALSE is the code as it *)
(* was found (no checks): TLC refutes InBounds and its counterexamples are *)
(* the minimal overflowing programs; Checks = TRUE is the repaired design. *)
(***************************************************************************)
EXTENDS Naturals, Sequences, TLC, Json

CONSTANTS NInsns,        \* 100
          NVarSlots,     \* 64 = ORC_N_COMPILER_VARIABLES - ORC_VAR_T1 temporaries in all
          MaxProgTemps,  \* 16
          MaxConsts,     \* 16 = 8 constants + 8 parameters
          MaxLen,        \* longest program explored
          MaxRuns,       \* a program is at most this many runs of equal shapes
          Checks,        \* TRUE: capacity checks present
          DumpNear       \* dump behaviours whose tables end within this distance of a capacity

Shapes == {"T=s.s", "d=s.s", "d=s.c", "d=s.C", "T=T.T", "d=d.d", "d=T.T", "A+=T"}
\* T=s.s : the program temporary T from two array sources (+2 loads, +2 temps, +1 dup if T was written before)
\* d=s.s : array destination from two array sources      (+2 loads, +1 store, +3 temps)
\* d=s.c : array source and the constant c               (+1 load, +1 store, +2 temps; the first use of
\*         c adds its loadp and one more temp)
\* d=s.C : array source and a constant not loaded before (+1 load, +1 loadp, +1 store, +3 temps)
\* T=T.T : T rewritten from itself (needs T written)      (+1 dup temp)
\* d=d.d : in-place destination                          (+2 loads, +1 store, +3 temps)
\* d=T.T : store of the temporary (needs T written)       (+1 store, +1 temp)
\* A+=T  : accumulate the temporary (needs T written)     (nothing added: the only way to 100 instructions)

Loads(s)  == CASE s \in {"T=s.s", "d=s.s", "d=d.d"} -> 2
               [] s \in {"d=s.c", "d=s.C"} -> 1
               [] OTHER -> 0
Stores(s) == IF s \in {"d=s.s", "d=s.c", "d=s.C", "d=d.d", "d=T.T"} THEN 1 ELSE 0
WritesT(s) == s \in {"T=s.s", "T=T.T"}
ReadsT(s) == s \in {"T=T.T", "d=T.T", "A+=T"}

VARIABLES prog,      \* the program: sequence of runs [s |-> shape, n |-> repetitions]
          pInsns,    \* entries used in OrcProgram.insns
          cInsns,    \* entries the compiler will use in OrcCompiler.insns
          temps,     \* temporaries in all: program temps + created + dups
          consts,    \* distinct constants/parameters loaded
          tW,        \* the program temporary T has been written
          cL,        \* the constant c has been used (its loadp exists)
          err,       \* a capacity check fired ("" = none)
          phase      \* "build" | "compiled"

vars == <<prog, pInsns, cInsns, temps, consts, tW, cL, err, phase>>

Loadps(s) == IF s = "d=s.C" \/ (s = "d=s.c" /\ ~cL) THEN 1 ELSE 0

Init == prog = <<>> /\ pInsns = 0 /\ cInsns = 0 /\ temps = 1 /\ consts = 1 /\ tW = FALSE /\ cL = FALSE /\ err = "" /\ phase = "build"
\* one program temporary (T) and one constant (c) are declared

\* construction API: orc_program_append*
AddInsn(s) ==
  /\ phase = "build" /\ err = ""
  /\ pInsns < MaxLen
  /\ (s = "d=s.C" => consts < MaxConsts)
  /\ (ReadsT(s) => tW)          \* reading an unwritten temporary is a (legitimate) fatal error
  /\ IF Len(prog) > 0 /\ prog[Len(prog)].s = s
       THEN prog' = [prog EXCEPT ![Len(prog)].n = @ + 1]
       ELSE Len(prog) < MaxRuns /\ prog' = Append(prog, [s |-> s, n |-> 1])
  /\ IF Checks /\ pInsns + 1 > NInsns
       THEN \* the append is refused and the program remembers the error
            err' = "program-insns" /\ UNCHANGED <<pInsns, cInsns, temps, consts, tW, cL>>
       ELSE /\ pInsns' = pInsns + 1
            /\ consts' = consts + (IF s = "d=s.C" THEN 1 ELSE 0)
            /\ tW' = (tW \/ WritesT(s))
            /\ cL' = (cL \/ s = "d=s.c")
            \* what the rewrite passes will need for this instruction
            /\ cInsns' = cInsns + Loads(s) + Loadps(s) + 1 + Stores(s)
            /\ temps' = temps + Loads(s) + Loadps(s) + Stores(s) + (IF WritesT(s) /\ tW THEN 1 ELSE 0)
            /\ UNCHANGED err
  /\ UNCHANGED phase

\* orc_program_compile: copies insns[], then rewrite_insns / rewrite_vars fill the
\* compiler's tables; with the checks an overrun is an error, without them the
\* tables are simply indexed (InBounds then fails)
Compile ==
  /\ phase = "build" /\ pInsns > 0
  /\ phase' = "compiled"
  /\ err' = IF err # "" THEN err
            ELSE IF Checks /\ cInsns > NInsns THEN "compiler-insns"
            ELSE IF Checks /\ temps > NVarSlots THEN "compiler-vars"
            ELSE ""
  /\ UNCHANGED <<prog, pInsns, cInsns, temps, consts, tW, cL>>

Next == Compile \/ \E s \in Shapes : AddInsn(s)
Spec == Init /\ [][Next]_vars

\* no table is ever indexed past its end
InBounds == /\ pInsns <= NInsns
            /\ (phase = "compiled" /\ err = "") => (cInsns <= NInsns /\ temps <= NVarSlots)

\* the result class a compile of `prog` must have: an overrun is an error
Class == IF err = "program-insns" THEN "F"
         ELSE IF err # "" THEN "O-or-F" ELSE "any"

-----------------------------------------------------------------------------
(* boundary behaviours for replay: programs (at most MaxRuns runs of equal     *)
(* shapes) whose tables end within DumpNear of a capacity, on either side     *)
Near(x, cap) == x + DumpNear >= cap /\ x <= cap + DumpNear

Boundary == /\ phase = "compiled"
            /\ Near(pInsns, NInsns) \/ Near(cInsns, NInsns) \/ Near(temps, NVarSlots) \/ err = "program-insns"

DumpInv == ~Boundary \/
           PrintT("PROG " \o ToJson([prog |-> prog, p |-> pInsns, c |-> cInsns, t |-> temps, err |-> err]))
=============================================================================
