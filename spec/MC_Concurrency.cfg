SPECIFICATION Spec
CONSTANTS
  Threads = {1, 2, 3}
  Onces = {1, 2}
  AtomicInitFlag = TRUE
  Recheck = TRUE
  ReleaseStore = TRUE
  LockedFree = TRUE
  defaultInitValue = 0
INVARIANTS InitOnce OnceOnce NoRace AllocSane
PROPERTY Termination
