------------------------------ MODULE ExecMem ------------------------------
(***************************************************************************)
(* How Orc obtains executable memory (orccodemem.c:                         *)
(* orc_code_region_allocate_codemem and its helpers), with every system     *)
(* call a separate step that can fail (C06).                                *)
(*                                                                          *)
(* A region request walks a chain of attempts: one dual-mapping attempt per *)
(* directory (XDG_RUNTIME_DIR, HOME, TMPDIR when set, then /tmp), then one   *)
(* anonymous RWX mapping.  A dual-mapping attempt is                         *)
(*     mkstemp -> ftruncate -> mmap(exec) -> mmap(write) -> close            *)
(* and must release what it acquired when a step fails.  The library makes   *)
(* one request when it initialises (the probe that decides whether JIT is    *)
(* possible at all) and one whenever a compile finds no free chunk.          *)
(*                                                                          *)
(* Faultable calls are numbered in the order they happen in the process;     *)
(* a fault plan is the set of numbers that fail.  TLC explores every plan    *)
(* with at most MaxFaults elements and checks that no descriptor or mapping  *)
(* is ever left behind by a failed attempt, that a request succeeds iff some *)
(* attempt ran to its end, and what the library concludes from it.           *)
(* `Buggy` selects deliberately broken variants that TLC must refute.        *)
(***************************************************************************)
EXTENDS Naturals, FiniteSets, Sequences, TLC, Json

CONSTANTS NDirs,       \* dual-mapping attempts per request (directories set + /tmp)
          MaxCalls,    \* fault plans range over call numbers 1..MaxCalls
          MaxFaults,
          Buggy        \* "" | "noclose-exec" | "anon-null"

VARIABLES plan,      \* set of call numbers that fail
          callno,    \* faultable calls made so far
          req,       \* 1 = probe at init, 2 = first compile, 3 = finished
          att,       \* attempt within the request: 1..NDirs dual, NDirs+1 anon
          pc,        \* "mkstemp" | "ftruncate" | "mmapx" | "mmapw" | "anon" | "done"
          fd,        \* 0 or 1: a temp file descriptor is open
          mapx, mapw,\* mappings held by the attempt in progress
          regions,   \* mappings that belong to successful requests
          got,       \* <<ok1, ok2>> outcome of the two requests
          leakedFd, leakedMap,   \* ghosts: resources left behind by failed attempts
          wild       \* ghost: a "success" was reported without a mapping

vars == <<plan, callno, req, att, pc, fd, mapx, mapw, regions, got, leakedFd, leakedMap, wild>>

Plans == { S \in SUBSET (1..MaxCalls) : Cardinality(S) <= MaxFaults }

Init ==
  /\ plan \in Plans
  /\ callno = 0 /\ req = 1 /\ att = 1
  /\ pc = (IF NDirs >= 1 THEN "mkstemp" ELSE "anon")
  /\ fd = 0 /\ mapx = 0 /\ mapw = 0 /\ regions = 0
  /\ got = <<FALSE, FALSE>>
  /\ leakedFd = 0 /\ leakedMap = 0 /\ wild = FALSE

Fails == (callno + 1) \in plan

NextAttempt ==   \* the attempt failed and has cleaned up: go on with the chain
  /\ att' = att + 1
  /\ pc' = IF att + 1 <= NDirs THEN "mkstemp" ELSE "anon"

Finish(ok) ==    \* the request is over
  /\ got' = [got EXCEPT ![req] = ok]
  /\ req' = req + 1
  /\ att' = 1
  /\ pc' = IF req + 1 <= 2 THEN (IF NDirs >= 1 THEN "mkstemp" ELSE "anon") ELSE "done"

Mkstemp ==
  /\ pc = "mkstemp" /\ callno' = callno + 1
  /\ IF Fails THEN NextAttempt /\ UNCHANGED <<fd, req, got>>
              ELSE fd' = 1 /\ pc' = "ftruncate" /\ UNCHANGED <<att, req, got>>
  /\ UNCHANGED <<plan, mapx, mapw, regions, leakedFd, leakedMap, wild>>

Ftruncate ==
  /\ pc = "ftruncate" /\ callno' = callno + 1
  /\ IF Fails THEN fd' = 0 /\ NextAttempt /\ UNCHANGED <<req, got>>      \* close(fd)
              ELSE pc' = "mmapx" /\ UNCHANGED <<fd, att, req, got>>
  /\ UNCHANGED <<plan, mapx, mapw, regions, leakedFd, leakedMap, wild>>

MmapExec ==
  /\ pc = "mmapx" /\ callno' = callno + 1
  /\ IF Fails
       THEN /\ IF Buggy = "noclose-exec"
                 THEN leakedFd' = leakedFd + 1 /\ fd' = 0      \* descriptor forgotten
                 ELSE fd' = 0 /\ UNCHANGED leakedFd             \* close(fd)
            /\ NextAttempt /\ UNCHANGED <<mapx, req, got>>
       ELSE mapx' = 1 /\ pc' = "mmapw" /\ UNCHANGED <<fd, att, req, got, leakedFd>>
  /\ UNCHANGED <<plan, mapw, regions, leakedMap, wild>>

MmapWrite ==
  /\ pc = "mmapw" /\ callno' = callno + 1
  /\ IF Fails
       THEN /\ mapx' = 0 /\ fd' = 0                              \* munmap(exec), close(fd)
            /\ NextAttempt /\ UNCHANGED <<req, got, regions, mapw>>
       ELSE \* success: close(fd), the two mappings now belong to the region
            /\ fd' = 0 /\ mapx' = 0 /\ mapw' = 0
            /\ regions' = regions + 2
            /\ Finish(TRUE)
  /\ UNCHANGED <<plan, leakedFd, leakedMap, wild>>

MmapAnon ==
  /\ pc = "anon" /\ callno' = callno + 1
  /\ IF Fails
       THEN IF Buggy = "anon-null"
              THEN wild' = TRUE /\ Finish(TRUE) /\ UNCHANGED regions   \* MAP_FAILED taken for success
              ELSE Finish(FALSE) /\ UNCHANGED <<regions, wild>>
       ELSE regions' = regions + 1 /\ Finish(TRUE) /\ UNCHANGED wild
  /\ UNCHANGED <<plan, fd, mapx, mapw, leakedFd, leakedMap>>

Next == Mkstemp \/ Ftruncate \/ MmapExec \/ MmapWrite \/ MmapAnon
Spec == Init /\ [][Next]_vars
FairSpec == Spec /\ WF_vars(Next)

-----------------------------------------------------------------------------
(* between attempts nothing is held; nothing is ever left behind *)
Balanced == /\ leakedFd = 0 /\ leakedMap = 0
            /\ (pc \in {"mkstemp", "anon", "done"} => (fd = 0 /\ mapx = 0 /\ mapw = 0))
NoWildSuccess == ~wild
\* a request succeeds iff it obtained mappings
SuccessIffMapped == pc = "done" => ((got[1] \/ got[2]) <=> regions > 0)
Terminates == <>(pc = "done")

\* what the library concludes (orccompiler.c): JIT is used only if the probe
\* succeeded; the first compile gets native code only if its own request succeeded
CanJit == got[1]
CompileNative == got[1] /\ got[2]

-----------------------------------------------------------------------------
(* one line per fault plan: the stimulus for the replay, with the outcome the
   design predicts (diagnostic) *)
DumpInv == pc # "done" \/
   PrintT("PLAN " \o ToJson([plan |-> plan, canjit |-> CanJit, native |-> CompileNative, calls |-> callno]))
=============================================================================
