SPECIFICATION TSpec
CONSTANTS
  CalleeSaved = {"rbx", "rbp", "r12", "r13", "r14", "r15"}
  Volatile = {"rax", "rcx", "rdx", "rsi", "rdi", "r8", "r9", "r10", "r11"}
  Slots <- TSlots
POSTCONDITION TraceAccepted
CHECK_DEADLOCK FALSE
