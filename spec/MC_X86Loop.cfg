SPECIFICATION Spec
CONSTANTS
  MaxN = 70
  StaleTail = FALSE
INVARIANTS NeverPastN AllProcessed CountersSum
PROPERTY Finishes
CHECK_DEADLOCK FALSE
