SPECIFICATION Spec
CONSTANTS
  Handles = {1, 2, 3, 4}
  RSize = 4
  MaxRegions = 3
  Sizes = {1, 2, 3, 4, 5}
  OsMayFail = TRUE
  MaxHist = 0
  DumpFile = ""
INVARIANTS Tiling Coalesced UsedIsLive RegionBound AbsNoOverlap AbsTypeOK
PROPERTY AbsSpec
VIEW View
CHECK_DEADLOCK FALSE
