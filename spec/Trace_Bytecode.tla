--------------------------- MODULE Trace_Bytecode ---------------------------
(***************************************************************************)
(* Validation of BC events (harness/h_bytecode) for C13:                    *)
(*   prog   the program as built through the API (projection)               *)
(*   bytes  orc_bytecode_from_program(prog)                                 *)
(*   back   projection of orc_program_new_from_static_bytecode(bytes)       *)
(*   same_bytes  re-serialising `back` gives the same bytes                 *)
(*   emu    original and reconstruction emulate to the same outputs         *)
(* Verdict (the property): back = Norm(prog), same_bytes, emu.              *)
(* Diagnostic (the format is not part of the property): the specification's *)
(* Encode(prog) equals bytes and its Decode(bytes) equals back.             *)
(***************************************************************************)
EXTENDS Bytecode, IOUtils

TraceLog == ndJsonDeserialize(IOEnv.TRACE)
VARIABLES l
Ev == TraceLog[l]

TInit == l = 1
TBC == /\ l <= Len(TraceLog) /\ Ev.e = "BC" /\ l' = l + 1
       /\ Ev.back = Norm(Ev.prog)
       /\ Ev.same_bytes = 1
       /\ Ev.emu = 1
       /\ (Encode(Ev.prog) # Ev.bytes => PrintT(<<"DRIFT", "bytes differ from Encode(prog) at line", l>>))
       /\ (Decode(Ev.bytes) # Ev.back => PrintT(<<"DRIFT", "Decode(bytes) differs from the library's reconstruction", l>>))
TOther == l <= Len(TraceLog) /\ Ev.e \notin {"BC", "Crash"} /\ l' = l + 1
TNext == TBC \/ TOther
TSpec == TInit /\ [][TNext]_l
Consumed == TLCGet("stats").diameter - 1
TraceAccepted ==
  IF Consumed = Len(TraceLog) THEN TRUE
  ELSE Print(<<"REJECTED_AT", Consumed + 1, "of", Len(TraceLog)>>, FALSE)
=============================================================================
