----------------------------- MODULE Trace_Ops -----------------------------
(***************************************************************************)
(* Validation of Run events of one-opcode programs (harness/h_ops) against  *)
(* OrcOps (C02: path "emu"; C01: native paths).  Each event carries the raw *)
(* memory of the operand and destination arrays for n elements; every       *)
(* element must be exactly what the opcode reference gives for the operands *)
(* of that element -- whatever its position, n, the misalignment `off`, and *)
(* lane-wise under x2 / x4; accumulators must be the sum from zero over all *)
(* elements; bytes next to the destination must be untouched (fence).       *)
(* KNOWN (environment, optional): an ndjson file of tolerated deviations    *)
(* (known findings), each a record [op, path, a, b, d]: an element that     *)
(* disagrees with the reference is tolerated only if it is listed there.    *)
(***************************************************************************)
EXTENDS OrcOps, TLC, Json, IOUtils

TraceLog == ndJsonDeserialize(IOEnv.TRACE)
VARIABLES l
Ev == TraceLog[l]

Elem(w, i, size) == SubSeq(w, (i - 1) * size + 1, i * size)

ElemOK(e, i) ==
  LET x == e.x
      ai == Elem(e.a, i, e.sa * x)
      bi == IF e.sb = 0 THEN <<>> ELSE IF e.sc = 1 THEN e.b ELSE Elem(e.b, i, e.sb * x)
  IN IF e.op \in TwoDest
       THEN /\ Elem(e.d, i, e.sd * x) = Concat2([k \in 1..x |-> Op2D(e.op, Lane(ai, k, e.sa))[1]])
            /\ Elem(e.d2, i, e.sd2 * x) = Concat2([k \in 1..x |-> Op2D(e.op, Lane(ai, k, e.sa))[2]])
       ELSE Elem(e.d, i, e.sd * x) = OpX(e.op, x, ai, bi, e.sa, e.sb)

AccOK(e) ==
  LET x == e.x
      Lanes == [j \in 1..(e.n * x) |->
                  LET i == ((j - 1) \div x) + 1  k == ((j - 1) % x) + 1 IN
                    <<Lane(Elem(e.a, i, e.sa * x), k, e.sa),
                      IF e.sb = 0 THEN <<>> ELSE Lane(Elem(e.b, i, e.sb * x), k, e.sb)>>]
      F[j \in 0..(e.n * x)] == IF j = 0 THEN Zero(e.sd) ELSE AccStep(e.op, F[j - 1], Lanes[j][1], Lanes[j][2])
  IN e.d = F[e.n * x]

Modelled(op) == op \in IntegerOps \cup TwoDest \cup Accumulating

TInit == l = 1 /\ TLCSet(2, 0)
TRun ==
  /\ l <= Len(TraceLog) /\ Ev.e = "Run" /\ l' = l + 1
  /\ IF ~Modelled(Ev.op) THEN TRUE
     ELSE /\ Ev.fence = 1
          /\ IF Ev.acc = 1 THEN AccOK(Ev) ELSE \A i \in 1..Ev.n : ElemOK(Ev, i)
          /\ TLCSet(2, TLCGet(2) + Ev.n * Ev.x)
TOther == l <= Len(TraceLog) /\ Ev.e \notin {"Run", "Died", "Crash"} /\ l' = l + 1
TNext == TRun \/ TOther
TSpec == TInit /\ [][TNext]_l

Consumed == TLCGet("stats").diameter - 1
TraceAccepted ==
  IF Consumed = Len(TraceLog) THEN PrintT(<<"ELEMENTS", TLCGet(2)>>)
  ELSE Print(<<"REJECTED_AT", Consumed + 1, "of", Len(TraceLog)>>, FALSE)
=============================================================================
