---------------------------- MODULE Trace_Prog ----------------------------
(***************************************************************************)
(* Validation of Prog events (harness/h_prog; C01 native paths, C04 the     *)
(* compiled generated C, C07 orcc wrappers) against OrcProg: every          *)
(* destination row must hold exactly the bytes the program semantics give   *)
(* for the logged inputs, constants and parameters, and every accumulator   *)
(* the sum over all rows from zero; fence bytes around every destination    *)
(* row untouched.                                                           *)
(***************************************************************************)
EXTENDS OrcProg, Json, IOUtils

TraceLog == ndJsonDeserialize(IOEnv.TRACE)
VARIABLES l
Ev == TraceLog[l]

\* rows[r] = sequence of <<slot, bytes>> for row r
RowsIn(e, r) == [k \in 1..Len(e.ins) |-> <<e.ins[k][1], e.ins[k][2][r]>>]

\* Elements are independent except for the accumulators, and an accumulator is only ever the
\* destination of an accumulating opcode: so each element is evaluated with zeroed accumulators
\* (its value is then this element's contribution) and the contributions are summed.
ElemEnv(e, row, i) ==
  RunInsns(Env0(e.vars, e.consts, row, [s \in Slots(e.vars, {"a"}) |-> Zero(SizeOf(e.vars, s))], i), e.insns, 1)

ProgOK(e) ==
  LET A == Slots(e.vars, {"a"})
      D == Slots(e.vars, {"d"})
      Envs == [r \in 1..e.m |-> LET row == RowsIn(e, r) IN [i \in 1..e.n |-> ElemEnv(e, row, i)]]
      Sum(s) == LET k == e.n * e.m
                    F[j \in 0..k] == IF j = 0 THEN Zero(SizeOf(e.vars, s))
                                     ELSE Add(F[j - 1], Envs[((j - 1) \div e.n) + 1][((j - 1) % e.n) + 1][s])
                IN F[k]
  IN /\ \A r \in 1..e.m : \A s \in D : \A i \in 1..e.n :
          Elem(Lookup(e.outs, s)[r], i, SizeOf(e.vars, s)) = Envs[r][i][s]
     /\ \A s \in A : Lookup(e.accs, s) = Sum(s)
     /\ e.fence = 1

TInit == l = 1 /\ TLCSet(2, 0)
TProg == /\ l <= Len(TraceLog) /\ Ev.e = "Prog" /\ l' = l + 1
         /\ ProgOK(Ev)
         /\ TLCSet(2, TLCGet(2) + Ev.n * Ev.m)
TOther == l <= Len(TraceLog) /\ Ev.e \notin {"Prog", "Died", "Crash"} /\ l' = l + 1
TNext == TProg \/ TOther
TSpec == TInit /\ [][TNext]_l
Consumed == TLCGet("stats").diameter - 1
TraceAccepted ==
  IF Consumed = Len(TraceLog) THEN PrintT(<<"ELEMENTS", TLCGet(2)>>)
  ELSE Print(<<"REJECTED_AT", Consumed + 1, "of", Len(TraceLog)>>, FALSE)
=============================================================================
