------------------------------ MODULE OrcText ------------------------------
(***************************************************************************)
(* The .orc parser (orc/orcparse.c, orc_parse_code) as a total function on *)
(* lines (C14), and on well-formed files the function from text to program *)
(* (C15).                                                                  *)
(*                                                                         *)
(* A file is a sequence of line kinds.  Step(st, k) is the parser state    *)
(* after a line of kind k: whether a program is current, how many          *)
(* variables of each class and how many instructions it has, and the set   *)
(* of line numbers for which the caller must receive an error record.      *)
(* Totality: Step is defined for every kind in every state (the spec has   *)
(* no guard), no count leaves its table (InTables), and every problem line *)
(* is in `errs`.  The kinds cover each directive with too few / the right  *)
(* number of tokens, before and after the first .function; instructions    *)
(* with x2/x4, unknown opcode, wrong arity, unknown operand, literal       *)
(* operands good and bad; lines of 17 tokens; and, by repetition, overruns *)
(* of every variable class and of the instruction table.                   *)
(***************************************************************************)
EXTENDS Naturals, Sequences, FiniteSets, TLC, Json

Caps == [d |-> 4, s |-> 8, a |-> 4, c |-> 8, p |-> 8, t |-> 16, insns |-> 100]

Decl == [source |-> "s", sourcealign |-> "s", dest |-> "d", acc |-> "a", const |-> "c", temp |-> "t",
         param |-> "p", longparam |-> "p", floatparam |-> "p", doubleparam |-> "p"]
DeclKinds == DOMAIN Decl
Harmless == {"blank", "comment", "comment_indented"}
NeedsProgOk == {"flags2d", "n5", "nmult", "m3", "backup"}      \* fine when a program is current
AlwaysBad == {"nmult0", "m0", "source0", "dest0", "acc0", "const0", "temp0", "param0", "backup0",
              "unknowndir", "op_unknown", "op_fewargs", "op_manyargs", "op_badoperand", "op_badlit",
              "x2alone", "tokens17"}
Ops == {"op_ok", "op_x2", "op_x4", "op_lit"}
Kinds == Harmless \cup {"function", "function0", "init", "init0"} \cup NeedsProgOk \cup DeclKinds
         \cup AlwaysBad \cup Ops

NoProg == [d |-> 0, s |-> 0, a |-> 0, c |-> 0, p |-> 0, t |-> 0, insns |-> 0, lit |-> FALSE, perr |-> FALSE]
Start == [line |-> 0, hasProg |-> FALSE, nProgs |-> 0, cur |-> NoProg, errs |-> {}]

Bad(st) == [st EXCEPT !.errs = @ \cup {st.line}]

\* one more variable of class f: beyond the capacity the program records an error (once; the
\* caller gets an error record for the first line that does it to a program)
AddVar(st, f) ==
  IF st.cur[f] < Caps[f] THEN [st EXCEPT !.cur[f] = @ + 1]
  ELSE IF st.cur.perr THEN st ELSE Bad([st EXCEPT !.cur.perr = TRUE])

AddInsn(st) ==
  IF st.cur.insns < Caps.insns THEN [st EXCEPT !.cur.insns = @ + 1]
  ELSE IF st.cur.perr THEN st ELSE Bad([st EXCEPT !.cur.perr = TRUE])

Step1(st0, k) ==
  LET st == [st0 EXCEPT !.line = @ + 1] IN
  CASE k \in Harmless -> st
    [] k \in {"function", "function0"} ->
         LET n == [st EXCEPT !.hasProg = TRUE, !.nProgs = @ + 1, !.cur = NoProg]
         IN IF k = "function0" THEN Bad(n) ELSE n
    [] k = "init" -> st
    [] k = "init0" -> Bad(st)
    [] ~st.hasProg -> Bad(st)                  \* anything else needs a current program
    [] k \in NeedsProgOk -> st
    [] k \in {"op_badoperand", "op_badlit"} -> Bad([st EXCEPT !.cur.perr = TRUE])   \* the API records it too
    [] k \in AlwaysBad -> Bad(st)
    [] k \in DeclKinds -> AddVar(st, Decl[k])
    [] k \in {"op_ok", "op_x2", "op_x4"} ->
         IF st.cur.d >= 1 /\ st.cur.s >= 1 THEN AddInsn(st)
         ELSE Bad([st EXCEPT !.cur.perr = TRUE])                       \* d1, s1 must exist
    [] k = "op_lit" ->
         \* the literal becomes a constant first (shared with an equal earlier literal), then
         \* the instruction is appended, which fails when d1 or s1 does not exist
         LET withc == IF st.cur.lit THEN st ELSE [AddVar(st, "c") EXCEPT !.cur.lit = (st.cur.c < Caps.c)] IN
           IF st.cur.d >= 1 /\ st.cur.s >= 1 THEN AddInsn(withc)
           ELSE Bad([withc EXCEPT !.cur.perr = TRUE])

\* "ops40" / "temps6": forty instruction lines / six .temp lines at once, so that bounded
\* exploration reaches the instruction and variable capacities
RECURSIVE Rep(_, _, _)
Rep(s, k, n) == IF n = 0 THEN s ELSE Rep(Step1(s, k), k, n - 1)
Step(s, k) == CASE k = "ops40" -> Rep(s, "op_ok", 40)
                [] k = "temps6" -> Rep(s, "temp", 6)
                [] k = "sources3" -> Rep(s, "source", 3)
                [] OTHER -> Step1(s, k)
AllKinds == Kinds \cup {"ops40", "temps6", "sources3"}

-----------------------------------------------------------------------------
VARIABLES st, hist
vars == <<st, hist>>
CONSTANTS MaxLines, DumpAt

Init == st = Start /\ hist = <<>>
Handle(k) == st.line < MaxLines /\ st' = Step(st, k) /\ hist' = Append(hist, k)
Next == \E k \in AllKinds : Handle(k)
Spec == Init /\ [][Next]_vars

InTables == \A f \in DOMAIN Caps : st.cur[f] <= Caps[f]
LinesNumbered == st.errs \subseteq 1..st.line
\* totality: whatever the state, every kind of line is handled
Total == st.line >= MaxLines \/ \A k \in AllKinds : ENABLED Handle(k)

View == st
View2 == <<st.hasProg, st.cur, st.nProgs > 0>>     \* deep exploration: line numbers and errors folded away
DumpInv == Len(hist) # DumpAt \/ PrintT("FILE " \o ToJson(hist))

\* the state after a whole file (used by the trace specification)
RECURSIVE Run(_, _)
Run(s, ks) == IF ks = <<>> THEN s ELSE Run(Step(s, Head(ks)), Tail(ks))
=============================================================================
