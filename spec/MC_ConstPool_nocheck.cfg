SPECIFICATION Spec
CONSTANTS
 Cap = 3
 Values = {1,2,3,4,5}
 Longs = {4,5}
 NRegs = 2
 MaxReq = 6
 Checks = FALSE
 LoadsLast = FALSE
INVARIANTS InBounds
CHECK_DEADLOCK FALSE
