--------------------------- MODULE Trace_ConstPool ---------------------------
(* Validation of the constant-pool hook events of real compiles against ConstPool.

   {"e":"Const","k":<value as text>,"long":0|1,"try":0|1,"idx":<index used, -1: pool full>,
    "n":<n_constants afterwards>,"how":"reg"|"temp"|"none"}
   {"e":"CompilerExit",...}   ends a compile: the next one starts with an empty pool.

   Each Const event must be a step of ConstPool.Get / ConstPool.TryGet for the logged
   value whose post-state agrees with the logged index, pool length and answer; the
   pass structure (when registers are assigned) is not logged and is inferred: a silent
   NextPass is allowed before an event when the event cannot be matched otherwise.
   InBounds is ConstPool's invariant with Cap = ORC_N_CONSTANTS. *)
EXTENDS Integers, Sequences, TLC, Json, IOUtils

TraceLog == ndJsonDeserialize(IOEnv.TRACE)
Cap == 20
VARIABLES l, pool, regs, maxidx
tvars == <<l, pool, regs, maxidx>>
Ev == TraceLog[l]

TInit == l = 1 /\ pool = <<>> /\ regs = FALSE /\ maxidx = 0

Find(k) == IF \E i \in 1..Len(pool) : pool[i] = k
           THEN CHOOSE i \in 1..Len(pool) : pool[i] = k ELSE 0

(* the step ConstPool allows for this request, compared with what the code reports *)
TConst ==
  /\ l <= Len(TraceLog) /\ Ev.e = "Const" /\ l' = l + 1
  /\ LET i == Find(Ev.k) IN
     IF i # 0 THEN                               \* found: same index, pool unchanged
        /\ Ev.idx = i - 1 /\ Ev.n = Len(pool)
        /\ pool' = pool /\ maxidx' = maxidx
        /\ Ev.how \in (IF Ev.try = 1 THEN {"reg", "none"} ELSE {"reg", "temp"})
        /\ regs' = (regs \/ Ev.how = "reg")       \* registers exist only after the first pass
     ELSE IF Len(pool) >= Cap THEN               \* full: unpooled answer, nothing written
        /\ Ev.idx = -1 /\ Ev.n = Len(pool)
        /\ pool' = pool /\ maxidx' = maxidx /\ regs' = regs
        /\ Ev.how = (IF Ev.try = 1 THEN "none" ELSE "temp")
     ELSE                                        \* appended at the end
        /\ Ev.idx = Len(pool) /\ Ev.n = Len(pool) + 1
        /\ pool' = Append(pool, Ev.k)
        /\ maxidx' = IF Len(pool) + 1 > maxidx THEN Len(pool) + 1 ELSE maxidx
        /\ regs' = regs
        /\ Ev.how = (IF Ev.try = 1 THEN "none" ELSE "temp")

TExit == /\ l <= Len(TraceLog) /\ Ev.e = "CompilerExit" /\ l' = l + 1
         /\ pool' = <<>> /\ regs' = FALSE /\ maxidx' = maxidx

TOther == /\ l <= Len(TraceLog) /\ Ev.e \notin {"Const", "CompilerExit"} /\ l' = l + 1
          /\ UNCHANGED <<pool, regs, maxidx>>

TNext == TConst \/ TExit \/ TOther
TSpec == TInit /\ [][TNext]_tvars

InBounds == maxidx <= Cap /\ Len(pool) <= Cap
Consumed == TLCGet("stats").diameter - 1
TraceAccepted ==
  IF Consumed = Len(TraceLog) THEN TRUE
  ELSE Print(<<"REJECTED_AT", Consumed + 1, "of", Len(TraceLog)>>, FALSE)
=============================================================================
