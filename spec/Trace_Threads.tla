--------------------------- MODULE Trace_Threads ---------------------------
(***************************************************************************)
(* Validation of multi-threaded executions of the real library (C08)        *)
(* against the synchronisation discipline of Concurrency.tla.  Events are   *)
(* consumed in the order of the emit sequence number; hook events of a      *)
(* lock-protected section take that number while the lock is held.          *)
(*   Lock/Unlock {m}            m = "g" (global mutex) | "o" (once mutex)   *)
(*   Alloc/Free/NewRegion/AllocFail   allocator hooks                       *)
(*   InitBody                   the body of orc_init runs                   *)
(*   OnceEnter {o, ret, val}    after orc_once_enter returned               *)
(*   OnceLeave {o, val}         just before orc_once_leave                  *)
(*   Run {kind, ok}             result check of a run in that thread        *)
(* As if serialised: a mutex has one holder; allocator state changes only   *)
(* while the calling thread holds the global mutex; the init body runs      *)
(* once; each OrcOnce is initialised by exactly one thread, which holds the *)
(* once mutex from its enter to its leave, and every other caller gets the  *)
(* value that thread published; every run gives the right result.           *)
(***************************************************************************)
EXTENDS Naturals, Sequences, FiniteSets, TLC, Json, IOUtils

TraceLog == ndJsonDeserialize(IOEnv.TRACE)
Onces == 1..16
VARIABLES l, holder, inits, once
tvars == <<l, holder, inits, once>>
Ev == TraceLog[l]
IsEvent(name) == l <= Len(TraceLog) /\ Ev.e = name /\ l' = l + 1

Fresh == [st |-> "new", by |-> 0, val |-> 0]
TInit == l = 1 /\ holder = [m \in {"g", "o"} |-> 0] /\ inits = 0 /\ once = [o \in Onces |-> Fresh]

TReset == /\ IsEvent("Reset") /\ (IF l = 1 THEN TRUE ELSE TraceLog[l - 1].e = "End")
          /\ holder' = [m \in {"g", "o"} |-> 0] /\ inits' = 0 /\ once' = [o \in Onces |-> Fresh]

TLock == /\ IsEvent("Lock") /\ holder[Ev.m] = 0
         /\ holder' = [holder EXCEPT ![Ev.m] = Ev.t] /\ UNCHANGED <<inits, once>>
TUnlock == /\ IsEvent("Unlock") /\ holder[Ev.m] = Ev.t
           /\ holder' = [holder EXCEPT ![Ev.m] = 0] /\ UNCHANGED <<inits, once>>

TAllocator == /\ l <= Len(TraceLog) /\ Ev.e \in {"Alloc", "Free", "NewRegion", "AllocFail"}
              /\ l' = l + 1
              /\ holder["g"] = Ev.t
              /\ UNCHANGED <<holder, inits, once>>

TInitBody == /\ IsEvent("InitBody") /\ holder["g"] = Ev.t /\ inits = 0
             /\ inits' = 1 /\ UNCHANGED <<holder, once>>

TOnceEnter ==
  /\ IsEvent("OnceEnter")
  /\ IF Ev.ret = 1
       THEN once[Ev.o].st = "done" /\ Ev.val = once[Ev.o].val /\ UNCHANGED once
       ELSE /\ once[Ev.o].st = "new"
            /\ holder["o"] = Ev.t
            /\ once' = [once EXCEPT ![Ev.o] = [st |-> "busy", by |-> Ev.t, val |-> 0]]
  /\ UNCHANGED <<holder, inits>>

TOnceLeave ==
  /\ IsEvent("OnceLeave")
  /\ once[Ev.o].st = "busy" /\ once[Ev.o].by = Ev.t /\ holder["o"] = Ev.t
  /\ once' = [once EXCEPT ![Ev.o] = [st |-> "done", by |-> Ev.t, val |-> Ev.val]]
  /\ UNCHANGED <<holder, inits>>

TRun == IsEvent("Run") /\ Ev.ok = 1 /\ UNCHANGED <<holder, inits, once>>

TEnd == /\ IsEvent("End") /\ Ev.failures = 0
        /\ holder = [m \in {"g", "o"} |-> 0]
        /\ UNCHANGED <<holder, inits, once>>

TSkip == /\ l <= Len(TraceLog)
         /\ Ev.e \notin {"Reset", "Lock", "Unlock", "Alloc", "Free", "NewRegion", "AllocFail", "InitBody",
                         "OnceEnter", "OnceLeave", "Run", "End", "Crash", "Race"}
         /\ l' = l + 1 /\ UNCHANGED <<holder, inits, once>>

TNext == TReset \/ TLock \/ TUnlock \/ TAllocator \/ TInitBody \/ TOnceEnter \/ TOnceLeave \/ TRun \/ TEnd \/ TSkip
TSpec == TInit /\ [][TNext]_tvars

Consumed == TLCGet("stats").diameter - 1
TraceAccepted ==
  IF Consumed = Len(TraceLog) /\ TraceLog[Len(TraceLog)].e = "End" THEN TRUE
  ELSE Print(<<"REJECTED_AT", Consumed + 1, "of", Len(TraceLog)>>, FALSE)
=============================================================================
