-------------------------- MODULE Trace_Footprint --------------------------
(***************************************************************************)
(* Validation of guard-page executions (harness/h_guard) for C03.  Each     *)
(* Access event says which configuration ran (opcode kind, n, offset and    *)
(* resampling parameters, path, placement) with every array mapped exactly  *)
(* as large as lo..hi says, flush against PROT_NONE pages, sources          *)
(* read-only, and reports: fault = 0 (no access outside), canary = 1 (gaps  *)
(* between rows intact), same = 1 (destination equals emulation's).  The    *)
(* specification recomputes lo/hi from Footprint, so the harness cannot     *)
(* have mapped more than the program is entitled to.  A Fault event (the    *)
(* faulting array and element offset) has no action.                        *)
(***************************************************************************)
EXTENDS Integers, Sequences, FiniteSets, TLC, Json, IOUtils

F == INSTANCE Footprint WITH MaxN <- 0, kind <- "plain", n <- 0, off <- 0, b <- 0, c <- 0
TraceLog == ndJsonDeserialize(IOEnv.TRACE)
VARIABLES l
Ev == TraceLog[l]
\* values of the loads with an index map (element size z = size of the opcode's operand)
Z(op) == IF op \in {"loadoffw"} THEN 2 ELSE IF op \in {"loadoffl", "ldresnearl", "ldreslinl"} THEN 4 ELSE 1
El(w, k, z) == SubSeq(w, k * z + 1, (k + 1) * z)              \* element k (0-based) of a byte sequence
LoadOK(e, by) ==
  LET z == Z(e.op)
      S(k) == El(by.s, k - e.lo, z)                            \* source element with index k
      Want(i) ==
        CASE e.kind = "loadoff" -> S(i + e.off)
          [] e.kind = "loadupdb" -> S(i \div 2)
          [] e.kind = "loadupib" -> IF i % 2 = 1 THEN <<(S(i \div 2)[1] + S((i \div 2) + 1)[1] + 1) \div 2>> ELSE S(i \div 2)
          [] e.kind = "ldresnear" -> S((e.b + e.c * i) \div 65536)
          [] e.kind = "ldreslin" ->
               LET t == e.b + e.c * i  k == t \div 65536  f == (t \div 256) % 256 IN
                 [j \in 1..z |-> (S(k)[j] * (256 - f) + S(k + 1)[j] * f) \div 256]
  IN \A i \in 0..(e.n - 1) : El(by.d, i, z) = Want(i)

TInit == l = 1
TAccess ==
  /\ l <= Len(TraceLog) /\ Ev.e = "Access" /\ l' = l + 1
  /\ Ev.lo = F!Lo(Ev.kind, Ev.n, Ev.off, Ev.b, Ev.c)
  /\ Ev.hi = F!Hi(Ev.kind, Ev.n, Ev.off, Ev.b, Ev.c)
  /\ Ev.fault = 0 /\ Ev.canary = 1 /\ Ev.same = 1
  /\ (Ev.kind # "plain" /\ Ev.m = 1 /\ l > 1 /\ TraceLog[l - 1].e = "Bytes") => LoadOK(Ev, TraceLog[l - 1])
TOther == l <= Len(TraceLog) /\ Ev.e \notin {"Access", "Fault", "Died", "Crash"} /\ l' = l + 1
TNext == TAccess \/ TOther
TSpec == TInit /\ [][TNext]_l
Consumed == TLCGet("stats").diameter - 1
TraceAccepted ==
  IF Consumed = Len(TraceLog) THEN TRUE
  ELSE Print(<<"REJECTED_AT", Consumed + 1, "of", Len(TraceLog)>>, FALSE)
=============================================================================
