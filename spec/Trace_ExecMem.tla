--------------------------- MODULE Trace_ExecMem ---------------------------
(***************************************************************************)
(* Property-level validation of the system calls Orc makes to obtain        *)
(* executable memory, as recorded by the --wrap shim (harness/shim.c):      *)
(*   Sys {n, call, ok, fd, id, inj}   call in mkstemp ftruncate mmapx mmapw *)
(*                                    anon munmap close                     *)
(*   Api / Phase / End                boundaries of public API calls        *)
(*   Fds {before, after, iters}       descriptors open before / after a     *)
(*                                    churn of compiles                     *)
(* Whatever order directories are tried in: every descriptor obtained is    *)
(* used only while open and is closed before the API call returns; a        *)
(* mapping obtained with a descriptor that does not end up in a region is   *)
(* unmapped before the call returns (an API call ends holding 0, 1 or 2     *)
(* more mappings than it started with: nothing, an anonymous region, a      *)
(* dual-mapped region); repeating compiles does not accumulate descriptors. *)
(***************************************************************************)
EXTENDS Naturals, Sequences, FiniteSets, TLC, Json, IOUtils

TraceLog == ndJsonDeserialize(IOEnv.TRACE)
VARIABLES l, fds, maps, base
tvars == <<l, fds, maps, base>>
Ev == TraceLog[l]
IsEvent(name) == l <= Len(TraceLog) /\ Ev.e = name /\ l' = l + 1

TInit == l = 1 /\ fds = {} /\ maps = {} /\ base = 0

TReset == IsEvent("Reset") /\ fds' = {} /\ maps' = {} /\ base' = 0

TSys ==
  /\ IsEvent("Sys")
  /\ CASE Ev.call = "mkstemp" ->
            /\ fds' = IF Ev.ok = 1 THEN fds \cup {Ev.fd} ELSE fds
            /\ (Ev.ok = 1 => Ev.fd \notin fds)
            /\ UNCHANGED maps
       [] Ev.call = "ftruncate" -> Ev.fd \in fds /\ UNCHANGED <<fds, maps>>
       [] Ev.call \in {"mmapx", "mmapw"} ->
            /\ Ev.fd \in fds
            /\ maps' = IF Ev.ok = 1 THEN maps \cup {Ev.id} ELSE maps
            /\ UNCHANGED fds
       [] Ev.call = "anon" ->
            /\ maps' = IF Ev.ok = 1 THEN maps \cup {Ev.id} ELSE maps
            /\ UNCHANGED fds
       [] Ev.call = "munmap" -> Ev.id \in maps /\ maps' = maps \ {Ev.id} /\ UNCHANGED fds
       [] Ev.call = "close" -> Ev.fd \in fds /\ fds' = fds \ {Ev.fd} /\ UNCHANGED maps
       [] OTHER -> FALSE
  /\ UNCHANGED base

\* a public call has returned: no descriptor is open, and the mappings gained
\* are those of whole regions
TBoundary ==
  /\ l <= Len(TraceLog) /\ Ev.e \in {"Api", "Phase", "End"}
  /\ l' = l + 1
  /\ fds = {}
  /\ Cardinality(maps) - base \in {0, 1, 2}
  /\ base' = Cardinality(maps)
  /\ UNCHANGED <<fds, maps>>

TFds == /\ IsEvent("Fds")
        /\ Ev.after <= Ev.before
        /\ UNCHANGED <<fds, maps, base>>

TSkip == /\ l <= Len(TraceLog)
         /\ Ev.e \notin {"Reset", "Sys", "Api", "Phase", "End", "Fds", "Crash"}
         /\ l' = l + 1 /\ UNCHANGED <<fds, maps, base>>

TNext == TReset \/ TSys \/ TBoundary \/ TFds \/ TSkip
TSpec == TInit /\ [][TNext]_tvars

Consumed == TLCGet("stats").diameter - 1
TraceAccepted ==
  IF Consumed = Len(TraceLog) THEN TRUE
  ELSE Print(<<"REJECTED_AT", Consumed + 1, "of", Len(TraceLog)>>, FALSE)
=============================================================================
