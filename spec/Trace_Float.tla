---------------------------- MODULE Trace_Float ----------------------------
(***************************************************************************)
(* Validation of FRun events of one-opcode float / double programs          *)
(* (harness/h_ops, modes flt / fpar / fcon) against OrcFloat (C18), for     *)
(* every path: emulation, native sse / avx, gcc-compiled generated C.       *)
(* Each event carries the raw memory of operands and destination, and for   *)
(* the opcodes with a rounded core the harness's flushed operands and the   *)
(* host's IEEE result (fa, fb, h).  Every lane of every element must meet   *)
(* the result the specification gives.  When the event also carries demu -  *)
(* emulation's destination for the same operands - lanes with finite        *)
(* operands must agree with it bit for bit (min / max of numerically equal  *)
(* operands excepted).                                                      *)
(* A BADORACLE line means the harness's oracle fields contradict the        *)
(* specification: a defect of the machinery, never of Orc.                  *)
(***************************************************************************)
EXTENDS OrcFloat, TLC, Json, IOUtils

TraceLog == ndJsonDeserialize(IOEnv.TRACE)
VARIABLES l
Ev == TraceLog[l]

Elem(w, i, size) == SubSeq(w, (i - 1) * size + 1, i * size)
Lane(w, k, size) == SubSeq(w, (k - 1) * size + 1, k * size)

LaneOK(e, i, k) ==
  LET x == e.x
      al == Lane(Elem(e.a, i, e.sa * x), k, e.sa)
      bl == IF e.sb = 0 THEN <<>> ELSE IF e.sc = 1 THEN e.b ELSE Lane(Elem(e.b, i, e.sb * x), k, e.sb)
      dl == Lane(Elem(e.d, i, e.sd * x), k, e.sd)
      orc == e.op \in DOMAIN ArithOps
      fal == IF orc THEN Lane(Elem(e.fa, i, e.sa * x), k, e.sa) ELSE <<>>
      fbl == IF orc /\ e.sb > 0 THEN (IF e.sc = 1 THEN e.fb ELSE Lane(Elem(e.fb, i, e.sb * x), k, e.sb)) ELSE <<>>
      hl == IF orc THEN Lane(Elem(e.h, i, e.sd * x), k, e.sd) ELSE <<>>
      r == FOp(e.op, al, bl, fal, fbl, hl)
      floatsrc == e.op \notin {"convlf", "convld", "convwf"}
      finite == ~floatsrc \/ (IsFinite(al) /\ (e.sb = 0 \/ IsFinite(bl)))
  IN IF r.k = "badoracle" THEN Print(<<"BADORACLE", e.op, al, bl, fal, fbl, hl>>, FALSE)
     ELSE /\ Meets(r, dl)
          /\ ("demu" \in DOMAIN e /\ finite) =>
               LET ml == Lane(Elem(e.demu, i, e.sd * x), k, e.sd) IN
                 dl = ml \/ (r.k = "oneof" /\ ml \in r.vs)

TInit == l = 1 /\ TLCSet(2, 0)
TRun ==
  /\ l <= Len(TraceLog) /\ Ev.e = "FRun" /\ l' = l + 1
  /\ IF Ev.op \notin FloatOps THEN TRUE
     ELSE /\ Ev.fence = 1
          /\ \A i \in 1..Ev.n : \A k \in 1..Ev.x : LaneOK(Ev, i, k)
          /\ TLCSet(2, TLCGet(2) + Ev.n * Ev.x)
TOther == l <= Len(TraceLog) /\ Ev.e \notin {"FRun", "Died", "Crash"} /\ l' = l + 1
TNext == TRun \/ TOther
TSpec == TInit /\ [][TNext]_l

Consumed == TLCGet("stats").diameter - 1
TraceAccepted ==
  IF Consumed = Len(TraceLog) THEN PrintT(<<"ELEMENTS", TLCGet(2)>>)
  ELSE Print(<<"REJECTED_AT", Consumed + 1, "of", Len(TraceLog)>>, FALSE)
=============================================================================
