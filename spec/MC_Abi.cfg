SPECIFICATION GSpec
CONSTANTS
  CalleeSaved = {"rbx", "rbp", "r12", "r13", "r14", "r15"}
  Volatile = {"rax", "rcx", "rdx"}
  Slots = {596, 600}
  SlotA = 596
  SlotB = 600
  Tmp = "rcx"
  RestoreSlot = "copy"
  Order <- OrderDef
INVARIANTS ReturnsPreserved TypeOK
CHECK_DEADLOCK FALSE
