------------------------------ MODULE Trace_Isa ------------------------------
(***************************************************************************)
(* C11 conformance: the instructions of every listing compiled for a       *)
(* (target, flags) configuration are checked against IsaFlags.  Events:     *)
(*   L  {target, flags, op, mode}   a listing begins                        *)
(*   M  {m, cls}                    a mnemonic with its register class      *)
(* A mnemonic the flags do not grant is reported as <<"BAD", index>>, one   *)
(* the table does not know as <<"UNKNOWN", m, cls>> (a gap of the           *)
(* specification, reported as a machinery error, never as a verdict).       *)
(***************************************************************************)
EXTENDS IsaFlags, IOUtils

TraceLog == ndJsonDeserialize(IOEnv.TRACE)
VARIABLES l
Ev == TraceLog[l]
TInit == l = 1 /\ target = "none" /\ flags = 0
TL == l <= Len(TraceLog) /\ Ev.e = "L" /\ l' = l + 1 /\ target' = Ev.target /\ flags' = Ev.flags
TM == /\ l <= Len(TraceLog) /\ Ev.e = "M" /\ l' = l + 1 /\ UNCHANGED <<target, flags>>
      /\ LET f == Feature(Ev.m, Ev.cls) IN
         IF f = "UNKNOWN" THEN PrintT(<<"UNKNOWN", Ev.m, Ev.cls>>)
         ELSE IF f \in Grants(target, flags) THEN TRUE ELSE PrintT(<<"BAD", l, f>>)
TOther == l <= Len(TraceLog) /\ Ev.e \notin {"L", "M"} /\ l' = l + 1 /\ UNCHANGED <<target, flags>>
TNext == TL \/ TM \/ TOther
TSpec == TInit /\ [][TNext]_<<l, target, flags>>
Consumed == TLCGet("stats").diameter - 1
TraceAccepted ==
  IF Consumed = Len(TraceLog) THEN TRUE
  ELSE Print(<<"REJECTED_AT", Consumed + 1, "of", Len(TraceLog)>>, FALSE)
=============================================================================
