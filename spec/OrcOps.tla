------------------------------ MODULE OrcOps ------------------------------
(***************************************************************************)
(* What every integer opcode of the "sys" set means, for every operand      *)
(* value (C02).  Written from the opcode reference -- doc/opcode_table.xml  *)
(* and the C expressions of orc/opcodes.h that doc/opcodes.xml names as the *)
(* precise definition -- not from orc/orcemulateopcodes.c.  Operands and    *)
(* results are words in memory order (OrcWord).                             *)
(*                                                                          *)
(* Known errata of the XML table, where it contradicts opcodes.h and every  *)
(* implementation (the specification follows opcodes.h):                    *)
(*   andn*      table: a & ~b        reference expression: (~a) & b         *)
(*   ldresnear* table: (b+c*i)>>8    every implementation: >>16             *)
(*   cmplt/cmple table rows repeat the text of cmpeq                        *)
(***************************************************************************)
EXTENDS OrcWord

\* width in bytes from the size letter
W(l) == CASE l = "b" -> 1 [] l = "w" -> 2 [] l = "l" -> 4 [] l = "q" -> 8

Mask(c, n) == IF c THEN Ones(n) ELSE Zero(n)
One(n) == [i \in 1..n |-> IF i = 1 THEN 1 ELSE 0]
\* shift count operand: its value (counts are 0..width-1 in the property's domain)
Count(b) == b[1]

\* (a + b + 1) >> 1 computed one byte wider
AvgS(a, b) == LET n == Len(a) IN Low(ShrS(Inc(Add(ExtS(a, n + 1), ExtS(b, n + 1))), 1), n)
AvgU(a, b) == LET n == Len(a) IN Low(ShrU(Inc(Add(ExtU(a, n + 1), ExtU(b, n + 1))), 1), n)
Sign(a) == LET n == Len(a) IN IF IsNeg(a) THEN Ones(n) ELSE IF a = Zero(n) THEN Zero(n) ELSE One(n)

\* ---------------------------------------------------------------- binary, same size
Bin(f, a, b) == LET n == Len(a) IN
  CASE f = "add" -> Add(a, b)
    [] f = "addss" -> ClampS(Add(ExtS(a, n + 1), ExtS(b, n + 1)), n)
    [] f = "addus" -> ClampU(Add(ExtU(a, n + 1), ExtU(b, n + 1)), n)
    [] f = "and" -> WAnd(a, b)
    [] f = "andn" -> WAnd(WNot(a), b)
    [] f = "avgs" -> AvgS(a, b)
    [] f = "avgu" -> AvgU(a, b)
    [] f = "cmpeq" -> Mask(a = b, n)
    [] f = "cmpgts" -> Mask(SLess(b, a), n)
    [] f = "maxs" -> SMax(a, b)
    [] f = "maxu" -> UMax(a, b)
    [] f = "mins" -> SMin(a, b)
    [] f = "minu" -> UMin(a, b)
    [] f = "mull" -> Low(MulU(a, b), n)
    [] f = "mulhs" -> High(MulS(a, b), n)
    [] f = "mulhu" -> High(MulU(a, b), n)
    [] f = "or" -> WOr(a, b)
    [] f = "shl" -> Shl(a, Count(b))
    [] f = "shrs" -> ShrS(a, Count(b))
    [] f = "shru" -> ShrU(a, Count(b))
    [] f = "sub" -> Sub(a, b)
    [] f = "subss" -> ClampS(Sub(ExtS(a, n + 1), ExtS(b, n + 1)), n)
    [] f = "subus" -> ClampU(Sub(ExtU(a, n + 1), ExtU(b, n + 1)), n)
    [] f = "xor" -> WXor(a, b)

BinFamilies == {"add", "addss", "addus", "and", "andn", "avgs", "avgu", "cmpeq", "cmpgts", "maxs", "maxu", "mins",
                "minu", "mull", "mulhs", "mulhu", "or", "shl", "shrs", "shru", "sub", "subss", "subus", "xor"}

\* ---------------------------------------------------------------- everything by name
\* Op(name, a, b): result word of a one-destination opcode (b ignored by unary opcodes)
Special(name, a, b) ==
  CASE name \in {"absb", "absw", "absl"} -> Abs(a)
    [] name \in {"copyb", "copyw", "copyl", "copyq"} -> a
    [] name \in {"signb", "signw", "signl"} -> Sign(a)
    [] name \in {"swapw", "swapl", "swapq"} -> Reverse(a)
    [] name = "swapwl" -> <<a[3], a[4], a[1], a[2]>>
    [] name = "swaplq" -> <<a[5], a[6], a[7], a[8], a[1], a[2], a[3], a[4]>>
    [] name = "splatw3q" -> <<a[7], a[8], a[7], a[8], a[7], a[8], a[7], a[8]>>
    [] name = "splatbw" -> <<a[1], a[1]>>
    [] name = "splatbl" -> <<a[1], a[1], a[1], a[1]>>
    [] name = "div255w" -> LET p == MulU(a, <<129, 128>>) IN ExtU(ShrU(p, 23), 2)          \* (a * 0x8081) >> 23
    [] name = "divluw" -> LET d == b[1] IN      \* clamp(a / (b & 255), 0, 255); divisor 0 gives 255
         IF d = 0 THEN <<255, 0>> ELSE LET q == Val(a) \div d IN <<IF q > 255 THEN 255 ELSE q, 0>>
    \* widening / narrowing conversions
    [] name \in {"convsbw", "convswl", "convslq"} -> ExtS(a, 2 * Len(a))
    [] name \in {"convubw", "convuwl", "convulq"} -> ExtU(a, 2 * Len(a))
    [] name \in {"convwb", "convlw", "convql", "select0wb", "select0lw", "select0ql"} -> Low(a, Len(a) \div 2)
    [] name \in {"convhwb", "convhlw", "select1wb", "select1lw", "select1ql"} -> High(a, Len(a) \div 2)
    [] name \in {"convssswb", "convssslw", "convsssql"} -> ClampS(a, Len(a) \div 2)
    [] name \in {"convsuswb", "convsuslw", "convsusql"} -> ClampU(a, Len(a) \div 2)
    [] name \in {"convusswb", "convusslw", "convussql"} ->                    \* unsigned source, signed range
         LET h == Len(a) \div 2 IN IF ULess(ExtU(MaxS(h), Len(a)), a) THEN MaxS(h) ELSE Low(a, h)
    [] name \in {"convuuswb", "convuuslw", "convuusql"} ->                    \* unsigned source, unsigned range
         LET h == Len(a) \div 2 IN IF ULess(ExtU(Ones(h), Len(a)), a) THEN Ones(h) ELSE Low(a, h)
    \* widening multiplies, merges
    [] name \in {"mulsbw", "mulswl", "mulslq"} -> MulS(a, b)
    [] name \in {"mulubw", "muluwl", "mululq"} -> MulU(a, b)
    [] name \in {"mergebw", "mergewl", "mergelq"} -> a \o b

\* family and size letter of the regular binary opcodes: "addssw" -> <<"addss", 2>>
Regular == [ addb |-> "add", addssb |-> "addss", addusb |-> "addus", andb |-> "and", andnb |-> "andn",
  avgsb |-> "avgs", avgub |-> "avgu", cmpeqb |-> "cmpeq", cmpgtsb |-> "cmpgts", maxsb |-> "maxs", maxub |-> "maxu",
  minsb |-> "mins", minub |-> "minu", mullb |-> "mull", mulhsb |-> "mulhs", mulhub |-> "mulhu", orb |-> "or",
  shlb |-> "shl", shrsb |-> "shrs", shrub |-> "shru", subb |-> "sub", subssb |-> "subss", subusb |-> "subus",
  xorb |-> "xor",
  addw |-> "add", addssw |-> "addss", addusw |-> "addus", andw |-> "and", andnw |-> "andn",
  avgsw |-> "avgs", avguw |-> "avgu", cmpeqw |-> "cmpeq", cmpgtsw |-> "cmpgts", maxsw |-> "maxs", maxuw |-> "maxu",
  minsw |-> "mins", minuw |-> "minu", mullw |-> "mull", mulhsw |-> "mulhs", mulhuw |-> "mulhu", orw |-> "or",
  shlw |-> "shl", shrsw |-> "shrs", shruw |-> "shru", subw |-> "sub", subssw |-> "subss", subusw |-> "subus",
  xorw |-> "xor",
  addl |-> "add", addssl |-> "addss", addusl |-> "addus", andl |-> "and", andnl |-> "andn",
  avgsl |-> "avgs", avgul |-> "avgu", cmpeql |-> "cmpeq", cmpgtsl |-> "cmpgts", maxsl |-> "maxs", maxul |-> "maxu",
  minsl |-> "mins", minul |-> "minu", mulll |-> "mull", mulhsl |-> "mulhs", mulhul |-> "mulhu", orl |-> "or",
  shll |-> "shl", shrsl |-> "shrs", shrul |-> "shru", subl |-> "sub", subssl |-> "subss", subusl |-> "subus",
  xorl |-> "xor",
  cmpeqq |-> "cmpeq", cmpgtsq |-> "cmpgts", andq |-> "and", andnq |-> "andn", orq |-> "or", xorq |-> "xor",
  addq |-> "add", subq |-> "sub", shlq |-> "shl", shrsq |-> "shrs", shruq |-> "shru",
  orf |-> "or", andf |-> "and" ]

Op(name, a, b) == IF name \in DOMAIN Regular THEN Bin(Regular[name], a, b) ELSE Special(name, a, b)

\* two-destination opcodes: <<first destination, second destination>>;
\* "split first/second": the first destination gets the half that is second in memory
Op2D(name, a) == LET h == Len(a) \div 2 IN <<High(a, h), Low(a, h)>>

\* accumulators: the new accumulator value (accw 16 bit, accl / accsadubl 32 bit), from zero
AccStep(name, acc, a, b) ==
  CASE name = "accw" -> Add(acc, a)
    [] name = "accl" -> Add(acc, a)
    [] name = "accsadubl" -> LET d == IF a[1] >= b[1] THEN a[1] - b[1] ELSE b[1] - a[1] IN Add(acc, <<d, 0, 0, 0>>)

IntegerOps == DOMAIN Regular \cup {"absb", "absw", "absl", "copyb", "copyw", "copyl", "copyq", "signb", "signw", "signl",
  "swapw", "swapl", "swapq", "swapwl", "swaplq", "splatw3q", "splatbw", "splatbl", "div255w", "divluw",
  "convsbw", "convswl", "convslq", "convubw", "convuwl", "convulq", "convwb", "convlw", "convql",
  "select0wb", "select0lw", "select0ql", "convhwb", "convhlw", "select1wb", "select1lw", "select1ql",
  "convssswb", "convssslw", "convsssql", "convsuswb", "convsuslw", "convsusql", "convusswb", "convusslw",
  "convussql", "convuuswb", "convuuslw", "convuusql", "mulsbw", "mulswl", "mulslq", "mulubw", "muluwl", "mululq",
  "mergebw", "mergewl", "mergelq"}
TwoDest == {"splitwb", "splitlw", "splitql"}
Accumulating == {"accw", "accl", "accsadubl"}

\* x2 / x4: the opcode applied to each lane of the operands (lane k = bytes (k-1)*size+1 .. k*size)
Lane(w, k, size) == SubSeq(w, (k - 1) * size + 1, k * size)
Concat2(ss) == LET F[i \in 0..Len(ss)] == IF i = 0 THEN <<>> ELSE F[i - 1] \o ss[i] IN F[Len(ss)]
OpX(name, mult, a, b, sa, sb) ==       \* sa, sb: operand sizes of the opcode itself (sb = 0: unary)
  Concat2([k \in 1..mult |-> Op(name, Lane(a, k, sa), IF sb = 0 THEN <<>> ELSE
                                  IF Len(b) = sb THEN b ELSE Lane(b, k, sb))])
=============================================================================
