------------------------------ MODULE Footprint ------------------------------
(***************************************************************************)
(* Which array elements a program is entitled to touch (C03).  For a row of *)
(* n elements a destination may be written, and a source or an in-place     *)
(* destination read, at indices 0..n-1 only; the loads with an index map    *)
(* read the source elements the opcode reference names:                     *)
(*   loadoffX  d, s, off     s[i + off]                                     *)
(*   loadupdb  d, s          s[i >> 1]                                      *)
(*   loadupib  d, s          s[i >> 1] and, for odd i, s[(i >> 1) + 1]      *)
(*   ldresnearX d, s, b, c   s[(b + c*i) >> 16]                             *)
(*   ldreslinX  d, s, b, c   s[(b + c*i) >> 16] and the element after it    *)
(* Entitled(kind, n, off, b, c) is the set of source indices; the harness   *)
(* maps exactly the hull of that set (PROT_NONE pages on both sides) and a  *)
(* destination of exactly n elements.  TLC enumerates the configurations.   *)
(***************************************************************************)
EXTENDS Integers, FiniteSets, Sequences, TLC, Json

CONSTANTS MaxN

Kinds == {"plain", "loadoff", "loadupdb", "loadupib", "ldresnear", "ldreslin"}
Offs == {-3, -1, 0, 1, 2, 5, 32, 64, 128}   \* 128, 64, 32: byte displacement +128 for sizes 1, 2, 4
Bs == {0, 32768, 65535, 131071}
Cs == {0, 16384, 32768, 65536, 98304, 131072}

Idx(kind, i, off, b, c) ==
  CASE kind = "plain" -> {i}
    [] kind = "loadoff" -> {i + off}
    [] kind = "loadupdb" -> {i \div 2}
    [] kind = "loadupib" -> IF i % 2 = 1 THEN {i \div 2, (i \div 2) + 1} ELSE {i \div 2}
    [] kind = "ldresnear" -> {(b + c * i) \div 65536}
    [] kind = "ldreslin" -> {(b + c * i) \div 65536, ((b + c * i) \div 65536) + 1}

Entitled(kind, n, off, b, c) == UNION { Idx(kind, i, off, b, c) : i \in 0..(n - 1) }
Min(S) == CHOOSE x \in S : \A y \in S : x <= y
Max(S) == CHOOSE x \in S : \A y \in S : x >= y
Lo(kind, n, off, b, c) == IF n = 0 THEN 0 ELSE Min(Entitled(kind, n, off, b, c))
Hi(kind, n, off, b, c) == IF n = 0 THEN -1 ELSE Max(Entitled(kind, n, off, b, c))

VARIABLES kind, n, off, b, c
vars == <<kind, n, off, b, c>>
Init == /\ kind \in Kinds /\ n \in 0..MaxN
        /\ off \in (IF kind = "loadoff" THEN Offs ELSE {0})
        /\ b \in (IF kind \in {"ldresnear", "ldreslin"} THEN Bs ELSE {0})
        /\ c \in (IF kind \in {"ldresnear", "ldreslin"} THEN Cs ELSE {0})
Next == UNCHANGED vars
Spec == Init /\ [][Next]_vars

\* sanity of the definition: the hull is monotone in n and never precedes the first reference
Monotone == n > 0 => /\ Hi(kind, n, off, b, c) >= Hi(kind, n - 1, off, b, c) \/ n = 1
                     /\ Lo(kind, n, off, b, c) <= Lo(kind, 1, off, b, c)
PlainIsRow == kind = "plain" => Entitled(kind, n, off, b, c) = 0..(n - 1)
DumpInv == PrintT("CFG " \o ToJson([kind |-> kind, n |-> n, off |-> off, b |-> b, c |-> c,
                                    lo |-> Lo(kind, n, off, b, c), hi |-> Hi(kind, n, off, b, c)]))
=============================================================================
