------------------------------ MODULE Bytecode ------------------------------
(***************************************************************************)
(* Orc bytecode (orc/orcbytecode.c) as a pair of functions between abstract *)
(* programs and byte sequences (C13).                                       *)
(*                                                                          *)
(* An abstract program:                                                     *)
(*   [cn, nmul, nmin, nmax, twod, cm,   fixed-size / 2-D settings           *)
(*    name,                              sequence of character codes        *)
(*    d, s : Seq([size, align]), a, t : Seq(size),                          *)
(*    c : Seq([size, bytes]),            constant value as little-endian    *)
(*                                       bytes (4 for sizes <= 4, else 8)   *)
(*    p : Seq([size, ptype]),            ptype in int | float | int64 |     *)
(*                                       double                             *)
(*    insns : Seq([flags, op, args])]    op = index in the sys opcode       *)
(*                                       table, args = variable slots       *)
(* Integers are one byte below 255, else 255 followed by 16 bits.           *)
(* What a round trip may change (Norm): nothing in this vocabulary -- names  *)
(* of variables and type names are not part of the abstract program.        *)
(***************************************************************************)
EXTENDS Naturals, Sequences, FiniteSets, TLC, Json, GenOps

BC == [END |-> 0, BEGIN |-> 1, ENDF |-> 2, CN |-> 3, NMUL |-> 4, NMIN |-> 5, NMAX |-> 6, TWOD |-> 7, CM |-> 8,
       NAME |-> 9, DEST |-> 11, SRC |-> 12, ACC |-> 13, CONST |-> 14, CONST64 |-> 15, PARAM |-> 16,
       PFLOAT |-> 17, PINT64 |-> 18, PDOUBLE |-> 19, TEMP |-> 20, FLAGS |-> 21]

PCode(pt) == CASE pt = "int" -> BC.PARAM [] pt = "float" -> BC.PFLOAT [] pt = "int64" -> BC.PINT64
               [] pt = "double" -> BC.PDOUBLE
PType(c) == CASE c = BC.PARAM -> "int" [] c = BC.PFLOAT -> "float" [] c = BC.PINT64 -> "int64"
              [] c = BC.PDOUBLE -> "double"

EncInt(v) == IF v < 255 THEN <<v>> ELSE <<255, v % 256, v \div 256>>
Concat(ss) == LET F[i \in 0..Len(ss)] == IF i = 0 THEN <<>> ELSE F[i - 1] \o ss[i] IN F[Len(ss)]
Opt(code, v) == IF v = 0 THEN <<>> ELSE <<code>> \o EncInt(v)

\* GenOps (generated from orc/orcopcodes-sys.c by the check driver) gives OpArgsSeq: the
\* number of operands each opcode writes, indexed by table position + 1, and OpIdx(name)
OpArgs == [i \in 0..(Len(OpArgsSeq) - 1) |-> OpArgsSeq[i + 1]]

EncInsn(i) == (IF i.flags = 0 THEN <<>> ELSE <<BC.FLAGS>> \o EncInt(i.flags))
              \o <<i.op + 32>> \o Concat([k \in 1..Len(i.args) |-> EncInt(i.args[k])])

Encode(P) ==
  <<BC.BEGIN>> \o Opt(BC.CN, P.cn) \o Opt(BC.NMUL, P.nmul) \o Opt(BC.NMIN, P.nmin) \o Opt(BC.NMAX, P.nmax)
  \o (IF P.twod THEN <<BC.TWOD>> \o Opt(BC.CM, P.cm) ELSE <<>>)
  \o <<BC.NAME>> \o EncInt(Len(P.name)) \o P.name
  \o Concat([k \in 1..Len(P.d) |-> <<BC.DEST>> \o EncInt(P.d[k].size) \o EncInt(P.d[k].align)])
  \o Concat([k \in 1..Len(P.s) |-> <<BC.SRC>> \o EncInt(P.s[k].size) \o EncInt(P.s[k].align)])
  \o Concat([k \in 1..Len(P.a) |-> <<BC.ACC>> \o EncInt(P.a[k])])
  \o Concat([k \in 1..Len(P.c) |-> <<(IF P.c[k].size <= 4 THEN BC.CONST ELSE BC.CONST64)>>
                                     \o EncInt(P.c[k].size) \o P.c[k].bytes])
  \o Concat([k \in 1..Len(P.p) |-> <<PCode(P.p[k].ptype)>> \o EncInt(P.p[k].size)])
  \o Concat([k \in 1..Len(P.t) |-> <<BC.TEMP>> \o EncInt(P.t[k])])
  \o Concat([k \in 1..Len(P.insns) |-> EncInsn(P.insns[k])])
  \o <<BC.ENDF, BC.END>>

Empty == [cn |-> 0, nmul |-> 0, nmin |-> 0, nmax |-> 0, twod |-> FALSE, cm |-> 0, name |-> <<>>,
          d |-> <<>>, s |-> <<>>, a |-> <<>>, c |-> <<>>, p |-> <<>>, t |-> <<>>, insns |-> <<>>]

\* reading an integer at position i of b: <<value, next position>>
GetInt(b, i) == IF b[i] = 255 THEN <<b[i + 1] + 256 * b[i + 2], i + 3>> ELSE <<b[i], i + 1>>

RECURSIVE Dec(_, _, _, _)
Dec(b, i, P, fl) ==
  LET g == GetInt(b, i)  code == g[1]  j == g[2] IN
  IF code >= 32 THEN
       LET n == OpArgs[code - 32]
           RECURSIVE Args(_, _, _)
           Args(k, pos, acc) == IF k = 0 THEN <<acc, pos>>
                                ELSE LET h == GetInt(b, pos) IN Args(k - 1, h[2], Append(acc, h[1]))
           ar == Args(n, j, <<>>)
       IN Dec(b, ar[2], [P EXCEPT !.insns = Append(@, [flags |-> fl, op |-> code - 32, args |-> ar[1]])], 0)
  ELSE CASE code = BC.END -> P
    [] code = BC.ENDF -> P
    [] code = BC.BEGIN -> Dec(b, j, P, fl)
    [] code = BC.CN -> LET h == GetInt(b, j) IN Dec(b, h[2], [P EXCEPT !.cn = h[1]], fl)
    [] code = BC.NMUL -> LET h == GetInt(b, j) IN Dec(b, h[2], [P EXCEPT !.nmul = h[1]], fl)
    [] code = BC.NMIN -> LET h == GetInt(b, j) IN Dec(b, h[2], [P EXCEPT !.nmin = h[1]], fl)
    [] code = BC.NMAX -> LET h == GetInt(b, j) IN Dec(b, h[2], [P EXCEPT !.nmax = h[1]], fl)
    [] code = BC.TWOD -> Dec(b, j, [P EXCEPT !.twod = TRUE], fl)
    [] code = BC.CM -> LET h == GetInt(b, j) IN Dec(b, h[2], [P EXCEPT !.cm = h[1]], fl)
    [] code = BC.NAME -> LET h == GetInt(b, j) IN
                          Dec(b, h[2] + h[1], [P EXCEPT !.name = SubSeq(b, h[2], h[2] + h[1] - 1)], fl)
    [] code \in {BC.DEST, BC.SRC} ->
         LET h == GetInt(b, j)  h2 == GetInt(b, h[2])  v == [size |-> h[1], align |-> h2[1]] IN
           Dec(b, h2[2], IF code = BC.DEST THEN [P EXCEPT !.d = Append(@, v)] ELSE [P EXCEPT !.s = Append(@, v)], fl)
    [] code = BC.ACC -> LET h == GetInt(b, j) IN Dec(b, h[2], [P EXCEPT !.a = Append(@, h[1])], fl)
    [] code \in {BC.CONST, BC.CONST64} ->
         LET h == GetInt(b, j)  w == IF code = BC.CONST THEN 4 ELSE 8 IN
           Dec(b, h[2] + w, [P EXCEPT !.c = Append(@, [size |-> h[1], bytes |-> SubSeq(b, h[2], h[2] + w - 1)])], fl)
    [] code \in {BC.PARAM, BC.PFLOAT, BC.PINT64, BC.PDOUBLE} ->
         LET h == GetInt(b, j) IN Dec(b, h[2], [P EXCEPT !.p = Append(@, [size |-> h[1], ptype |-> PType(code)])], fl)
    [] code = BC.TEMP -> LET h == GetInt(b, j) IN Dec(b, h[2], [P EXCEPT !.t = Append(@, h[1])], fl)
    [] code = BC.FLAGS -> LET h == GetInt(b, j) IN Dec(b, h[2], P, h[1])
    [] OTHER -> Dec(b, j, P, fl)

Decode(b) == Dec(b, 1, Empty, 0)

\* the decoder of the library gives an unaligned source/destination its size as alignment
Norm(P) == [P EXCEPT !.d = [k \in 1..Len(P.d) |-> [P.d[k] EXCEPT !.align = IF @ = 0 THEN P.d[k].size ELSE @]],
                     !.s = [k \in 1..Len(P.s) |-> [P.s[k] EXCEPT !.align = IF @ = 0 THEN P.s[k].size ELSE @]]]

RoundTrip(P) == Decode(Encode(P)) = Norm(P)
Stable(P) == Encode(Decode(Encode(P))) = Encode(Norm(P))
=============================================================================
