--------------------------- MODULE TargetSelect ---------------------------
(***************************************************************************)
(* Which back end Orc compiles for by default (C19): orc/orccpu-x86.c       *)
(* (feature detection), orc/orc{mmx,sse,avx}.c (executable, default flags), *)
(* orc/orctarget.c (registration order, override).                          *)
(*                                                                          *)
(* A CPU is a set of feature bits plus what the OS enabled in XCR0.  The    *)
(* module states the behaviour twice: `Impl*` as the code computes it       *)
(* (registration order, "last executable target wins", flags from CPUID     *)
(* words) and `Best`/`Supported` as the property words it.  TLC checks for  *)
(* every CPU and every override that the first meets the second; the same   *)
(* states are replayed into the library (hook ORC_VERIF_CPUID).             *)
(***************************************************************************)
EXTENDS Naturals, FiniteSets, Sequences, TLC, Json

CONSTANTS Overrides   \* values of the override variable explored ("" = unset)

Features == {"MMX", "SSE2", "SSE3", "SSSE3", "SSE41", "SSE42", "XSAVE", "OSXSAVE", "AVX", "AVX2"}
XCR0s == {0, 2, 6}          \* nothing, XMM state, XMM+YMM state enabled by the OS
Registered == <<"c", "c64x-c", "mmx", "sse", "avx", "altivec", "neon", "mips">>
X86 == {"mmx", "sse", "avx"}

VARIABLES cpu, xcr0, override
vars == <<cpu, xcr0, override>>

-----------------------------------------------------------------------------
(* the property, in its own words *)
OsYmm(c, x) == {"XSAVE", "OSXSAVE"} \subseteq c /\ x = 6
Supported(t, c, x) ==      \* the CPU and the OS can run every instruction t may use
  CASE t = "mmx" -> "MMX" \in c
    [] t = "sse" -> "SSE2" \in c
    [] t = "avx" -> {"AVX", "AVX2"} \subseteq c /\ OsYmm(c, x)
    [] OTHER -> FALSE
Best(c, x) == IF Supported("avx", c, x) THEN "avx"
              ELSE IF Supported("sse", c, x) THEN "sse"
              ELSE IF Supported("mmx", c, x) THEN "mmx" ELSE "none"

-----------------------------------------------------------------------------
(* the code *)
ImplSseFlags(c, x) ==
  (c \cap {"SSE2", "SSE3", "SSSE3", "SSE41", "SSE42"})
  \cup (IF OsYmm(c, x) /\ "AVX" \in c THEN {"AVX"} ELSE {})
  \cup (IF OsYmm(c, x) /\ {"AVX", "AVX2"} \subseteq c THEN {"AVX2"} ELSE {})
ImplMmxFlags(c) ==
  (c \cap {"MMX", "SSSE3", "SSE41"}) \cup (IF "SSE2" \in c THEN {"MMXEXT"} ELSE {})
ImplExecutable(t, c, x) ==
  CASE t = "mmx" -> "MMX" \in ImplMmxFlags(c)
    [] t = "sse" -> "SSE2" \in ImplSseFlags(c, x)
    [] t = "avx" -> {"AVX", "AVX2"} \subseteq ImplSseFlags(c, x)
    [] OTHER -> FALSE
\* orc_target_register: the last registered executable target becomes the default
ImplDetected(c, x) ==
  LET ex == { i \in 1..Len(Registered) : ImplExecutable(Registered[i], c, x) }
  IN IF ex = {} THEN "none" ELSE Registered[CHOOSE i \in ex : \A j \in ex : j <= i]
IsRegistered(n) == \E i \in 1..Len(Registered) : Registered[i] = n
\* orc_target_get_default: a named, registered, executable target replaces the detected one
ImplDefault(c, x, o) ==
  IF o # "" /\ IsRegistered(o) /\ ImplExecutable(o, c, x) THEN o ELSE ImplDetected(c, x)

-----------------------------------------------------------------------------
Init == cpu \in SUBSET Features /\ xcr0 \in XCR0s /\ override \in Overrides
Next == UNCHANGED vars
Spec == Init /\ [][Next]_vars

NeverExecutableWithoutSupport ==
  \A t \in X86 : ImplExecutable(t, cpu, xcr0) => Supported(t, cpu, xcr0)
DetectedIsBest == ImplDetected(cpu, xcr0) = Best(cpu, xcr0)
FlagsWithinCpu ==
  /\ ImplSseFlags(cpu, xcr0) \subseteq cpu
  /\ ("AVX" \in ImplSseFlags(cpu, xcr0) => OsYmm(cpu, xcr0))
  /\ (ImplMmxFlags(cpu) \ {"MMXEXT"}) \subseteq cpu
  /\ ("MMXEXT" \in ImplMmxFlags(cpu) => "SSE2" \in cpu)      \* SSE integer extensions come with SSE
OverrideHonoured ==
  (override # "" /\ IsRegistered(override) /\ Supported(override, cpu, xcr0)) =>
     ImplDefault(cpu, xcr0, override) = override
UnknownOverrideIgnored ==
  (override = "" \/ ~IsRegistered(override)) => ImplDefault(cpu, xcr0, override) = Best(cpu, xcr0)
OverrideNeverUnrunnable ==
  LET d == ImplDefault(cpu, xcr0, override) IN d = "none" \/ Supported(d, cpu, xcr0)

\* CPUID words for the hook: leaf 1 ecx / edx, leaf 7 ebx
Bit(f, b) == IF f \in cpu THEN b ELSE 0
Ecx1 == <<Bit("SSE3", 0), Bit("SSSE3", 9), Bit("SSE41", 19), Bit("SSE42", 20), Bit("XSAVE", 26),
          Bit("OSXSAVE", 27), Bit("AVX", 28)>>
DumpInv ==
  PrintT("CPU " \o ToJson([cpu |-> cpu, xcr0 |-> xcr0, override |-> override,
                           best |-> Best(cpu, xcr0), dflt |-> ImplDefault(cpu, xcr0, override)]))
=============================================================================
