SPECIFICATION TSpec
INVARIANTS TNoOverlap TTypeOK
POSTCONDITION TraceAccepted
CHECK_DEADLOCK FALSE
