--------------------------- MODULE Trace_Registry ---------------------------
(***************************************************************************)
(* Validation of registration histories replayed into the library (C20):   *)
(* RegSet / RegRule events drive the actions of Registry; the Query event   *)
(* at the end must agree with the specification's Find and Rule:            *)
(*   finds [[name, set]]          orc_opcode_find_by_name                   *)
(*   rules [[major, name, rs]]    orc_target_get_rule (rs 1 = built-in)     *)
(*   runs  [[name, emuSet, emitRs, okEmu, okNative]]  what really ran       *)
(* A program using a name is emulated by the function of the set Find       *)
(* gives, compiled by the emitter of the rule set Rule gives (0: no rule,   *)
(* not compiled), and both give the right values.                           *)
(***************************************************************************)
EXTENDS Naturals, Sequences, FiniteSets, TLC, Json, IOUtils

TraceLog == ndJsonDeserialize(IOEnv.TRACE)
VARIABLES sets, rsets, hist, l
INSTANCE Registry WITH AppNames <- {"myop", "addus", "addbx", "addb"}, MaxSets <- 5, MaxRuleSets <- 8,
                       TargetFlags <- {"F1"}, SimDepth <- 0
tvars == <<sets, rsets, hist, l>>
Ev == TraceLog[l]
IsEvent(name) == l <= Len(TraceLog) /\ Ev.e = name /\ l' = l + 1
ToSet(s) == { s[i] : i \in 1..Len(s) }

TInit == Init /\ l = 1
TReset == /\ IsEvent("Reset") /\ (IF l = 1 THEN TRUE ELSE TraceLog[l - 1].e = "End")
          /\ sets' = << Builtin >>
          /\ rsets' = << [major |-> 1, req |-> {}, cov |-> NamesOf(Builtin)] >>
          /\ hist' = <<>>
TRegSet == IsEvent("RegSet") /\ RegisterSet(Ev.names)
TRegRule == IsEvent("RegRule") /\ NewRuleSet(Ev.major, ToSet(Ev.req), ToSet(Ev.cov))

TQuery ==
  /\ IsEvent("Query")
  /\ \A i \in 1..Len(Ev.finds) : Ev.finds[i][2] = Find(Ev.finds[i][1])
  /\ \A i \in 1..Len(Ev.rules) : Ev.rules[i][3] = Rule(Ev.rules[i][1], Ev.rules[i][2], {"F1"})
  /\ \A i \in 1..Len(Ev.runs) :
       LET r == Ev.runs[i]  m == Find(r[1]) IN
         /\ r[2] = m                                   \* emulated with that set's function
         /\ r[4] = 1
         /\ r[3] = Rule(m, r[1], {"F1"})              \* compiled with that rule set's emitter
         /\ (r[3] # 0 => r[5] = 1)
  /\ BuiltinNamesStable /\ BuiltinRulesStable
  /\ UNCHANGED <<sets, rsets, hist>>
TEnd == IsEvent("End") /\ UNCHANGED <<sets, rsets, hist>>
TSkip == /\ l <= Len(TraceLog) /\ Ev.e \notin {"Reset", "RegSet", "RegRule", "Query", "End", "Crash"}
         /\ l' = l + 1 /\ UNCHANGED <<sets, rsets, hist>>

TNext == TReset \/ TRegSet \/ TRegRule \/ TQuery \/ TEnd \/ TSkip
TSpec == TInit /\ [][TNext]_tvars
Consumed == TLCGet("stats").diameter - 1
TraceAccepted ==
  IF Consumed = Len(TraceLog) /\ TraceLog[Len(TraceLog)].e = "End" THEN TRUE
  ELSE Print(<<"REJECTED_AT", Consumed + 1, "of", Len(TraceLog)>>, FALSE)
=============================================================================
