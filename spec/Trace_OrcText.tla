--------------------------- MODULE Trace_OrcText ---------------------------
(***************************************************************************)
(* Validation of Parse events (harness/h_parse) against OrcText (C14).      *)
(* Each event describes what orc_parse_code returned for one file; the      *)
(* sequence of line kinds the file was rendered from is in KINDS (ndjson,   *)
(* one record per file: f, kinds).  Totality and error reporting:           *)
(*   - the parse returned (a Died event has no action) and the programs     *)
(*     compiled and freed, the error vector was released,                   *)
(*   - every line the specification marks as a problem has an error record  *)
(*     with that line number (more records are allowed),                    *)
(*   - the number of programs and the variable / instruction counts of the  *)
(*     last one are the specification's, and within the tables,             *)
(*   - the return code says whether there were errors.                      *)
(***************************************************************************)
EXTENDS Naturals, Sequences, FiniteSets, TLC, Json, IOUtils

T == INSTANCE OrcText WITH st <- 0, hist <- <<>>, MaxLines <- 0, DumpAt <- 0

TraceLog == ndJsonDeserialize(IOEnv.TRACE)
KindsLog == ndJsonDeserialize(IOEnv.KINDS)
KindsOf(f) == KindsLog[CHOOSE i \in 1..Len(KindsLog) : KindsLog[i].f = f].kinds

VARIABLES l
Ev == TraceLog[l]
ToSet(s) == { s[i] : i \in 1..Len(s) }

TInit == l = 1
TParse ==
  /\ l <= Len(TraceLog) /\ Ev.e = "Parse" /\ l' = l + 1
  /\ LET want == T!Run(T!Start, KindsOf(Ev.f)) IN
       /\ want.errs \subseteq ToSet(Ev.errs)
       /\ Ev.nprogs = want.nProgs
       /\ (want.nProgs > 0 => /\ Ev.last.d = want.cur.d /\ Ev.last.s = want.cur.s /\ Ev.last.a = want.cur.a
                              /\ Ev.last.c = want.cur.c /\ Ev.last.p = want.cur.p /\ Ev.last.t = want.cur.t
                              /\ Ev.last.insns = want.cur.insns)
       /\ (Ev.rc = 0 <=> Ev.errs = <<>>)
       /\ ToSet(Ev.errs) \subseteq 1..(want.line + 1)
TOther == l <= Len(TraceLog) /\ Ev.e \notin {"Parse", "Died", "Crash"} /\ l' = l + 1
TNext == TParse \/ TOther
TSpec == TInit /\ [][TNext]_l
Consumed == TLCGet("stats").diameter - 1
TraceAccepted ==
  IF Consumed = Len(TraceLog) THEN TRUE
  ELSE Print(<<"REJECTED_AT", Consumed + 1, "of", Len(TraceLog)>>, FALSE)
=============================================================================
