------------------------------ MODULE Trace_Abi ------------------------------
(***************************************************************************)
(* C10 conformance, two kinds of recorded evidence against Abi:             *)
(* 1. Listing: the instruction stream of a compiled function (from          *)
(*    orc_program_get_asm_code, tokenised into push / pop / register        *)
(*    writes / MXCSR moves / MMX / emms / ret) is replayed through Abi's    *)
(*    actions; at ret, Preserved must hold.                                 *)
(* 2. Call: the function was called through an assembly trampoline that     *)
(*    seeded the callee-saved registers, MXCSR and stack canaries and read  *)
(*    them back: the recorded state after the call must be the state        *)
(*    before it, with the direction flag clear and the x87 tag word empty.  *)
(* An event that fails its check is reported as a line <<"BAD", index>> and  *)
(* the replay goes on, so that one pass lists every failing event; the      *)
(* verdict is taken from these lines.                                       *)
(***************************************************************************)
EXTENDS Abi, Json, IOUtils

TraceLog == ndJsonDeserialize(IOEnv.TRACE)
TSlots == {TraceLog[i].o : i \in {j \in 1..Len(TraceLog) : "o" \in DOMAIN TraceLog[j]}}
VARIABLES l
NoOrder == <<>>
Ev == TraceLog[l]
Is(n) == l <= Len(TraceLog) /\ Ev.e = n /\ l' = l + 1
IsI(n) == l <= Len(TraceLog) /\ Ev.e = "I" /\ Ev.i = n /\ l' = l + 1

TInit == AInit /\ l = 1
TFn == /\ Is("Fn")
       /\ phase' = "running"
       /\ reg' = [r \in Regs |-> IF r \in CalleeSaved THEN "orig" ELSE "junk"]
       /\ stack' = <<>> /\ mx' = "mxcaller" /\ slot' = [o \in Slots |-> "junk"] /\ x87' = "empty"

RegKnown(r) == r \in Regs
TInsn ==
  \/ IsI("push") /\ RegKnown(Ev.r) /\ Push(Ev.r)
  \/ IsI("pop") /\ RegKnown(Ev.r) /\ Pop(Ev.r)
  \/ IsI("write") /\ RegKnown(Ev.r) /\ Write(Ev.r)
  \/ IsI("stmx") /\ StMx(Ev.o)
  \/ IsI("ldmx") /\ LdMx(Ev.o)
  \/ IsI("load") /\ RegKnown(Ev.r) /\ Load(Ev.r, Ev.o)
  \/ IsI("store") /\ RegKnown(Ev.r) /\ Store(Ev.o, Ev.r)
  \/ IsI("orftz") /\ RegKnown(Ev.r) /\ OrFtz(Ev.r)
  \/ IsI("slotw") /\ SlotWrite(Ev.o)
  \/ IsI("mmx") /\ MmxOp
  \/ IsI("emms") /\ Emms
  \/ IsI("ret") /\ (IF Preserved THEN TRUE ELSE PrintT(<<"BAD", l>>)) /\ Ret

CallOK(e) ==
  /\ e.after.rbx = e.before.rbx /\ e.after.rbp = e.before.rbp /\ e.after.r12 = e.before.r12
  /\ e.after.r13 = e.before.r13 /\ e.after.r14 = e.before.r14 /\ e.after.r15 = e.before.r15
  /\ e.after.rsp = e.before.rsp
  /\ e.after.mxcsr = e.before.mxcsr          \* control bits (rounding, masks, FTZ, DAZ)
  /\ e.after.df = 0
  /\ e.after.tag = 65535                      \* x87 / MMX registers all empty
  /\ e.canary = 32                            \* the caller's stack words above the return address
  /\ e.guard = 1                              \* sources and the surroundings of the executor untouched
TCall == Is("Call") /\ (IF CallOK(Ev) THEN TRUE ELSE PrintT(<<"BAD", l>>)) /\ UNCHANGED avars
TOther == l <= Len(TraceLog) /\ Ev.e \notin {"Fn", "I", "Call", "Died"} /\ l' = l + 1 /\ UNCHANGED avars
TNext == TFn \/ TInsn \/ TCall \/ TOther
TSpec == TInit /\ [][TNext]_<<avars, l>>

Consumed == TLCGet("stats").diameter - 1
TraceAccepted ==
  IF Consumed = Len(TraceLog) THEN TRUE
  ELSE Print(<<"REJECTED_AT", Consumed + 1, "of", Len(TraceLog)>>, FALSE)
=============================================================================
