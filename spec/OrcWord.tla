------------------------------ MODULE OrcWord ------------------------------
(***************************************************************************)
(* Fixed-width machine words as little-endian sequences of bytes, with the *)
(* arithmetic the Orc opcode reference needs.  A word of n bytes is a       *)
(* sequence w of length n over 0..255, w[1] the byte that is first in       *)
(* memory.  Everything is computed byte-wise with small integers, so no     *)
(* intermediate value leaves TLC's 32-bit range whatever the width.         *)
(***************************************************************************)
EXTENDS Naturals, Sequences, Bitwise

Zero(n) == [i \in 1..n |-> 0]
Ones(n) == [i \in 1..n |-> 255]
Width(w) == Len(w)

\* value of a word of at most 3 bytes / a word from a small natural number
Val(w) == LET F[i \in 0..Len(w)] == IF i = 0 THEN 0 ELSE F[i - 1] * 256 + w[Len(w) + 1 - i] IN F[Len(w)]
RECURSIVE FromNatR(_, _)
FromNatR(v, n) == IF n = 0 THEN <<>> ELSE <<v % 256>> \o FromNatR(v \div 256, n - 1)
FromNat(v, n) == FromNatR(v, n)                \* v < 2^31

IsNeg(w) == w[Len(w)] >= 128
WNot(w) == [i \in 1..Len(w) |-> 255 - w[i]]
WAnd(a, b) == [i \in 1..Len(a) |-> a[i] & b[i]]
WOr(a, b) == [i \in 1..Len(a) |-> a[i] | b[i]]
WXor(a, b) == [i \in 1..Len(a) |-> a[i] ^^ b[i]]

\* a + b + cin modulo 256^n, and the carry out
Carries(a, b, cin) == LET C[i \in 0..Len(a)] == IF i = 0 THEN cin ELSE (a[i] + b[i] + C[i - 1]) \div 256 IN C
AddC(a, b, cin) == LET C == Carries(a, b, cin) IN [i \in 1..Len(a) |-> (a[i] + b[i] + C[i - 1]) % 256]
CarryOut(a, b, cin) == Carries(a, b, cin)[Len(a)]
Add(a, b) == AddC(a, b, 0)
Sub(a, b) == AddC(a, WNot(b), 1)
Neg(a) == AddC(Zero(Len(a)), WNot(a), 1)
Inc(a) == AddC(a, Zero(Len(a)), 1)

\* widen to m bytes (sign or zero fill) / keep the low m bytes / the high m bytes
ExtS(w, m) == [i \in 1..m |-> IF i <= Len(w) THEN w[i] ELSE IF IsNeg(w) THEN 255 ELSE 0]
ExtU(w, m) == [i \in 1..m |-> IF i <= Len(w) THEN w[i] ELSE 0]
Low(w, m) == SubSeq(w, 1, m)
High(w, m) == SubSeq(w, Len(w) - m + 1, Len(w))

\* comparisons
ULess(a, b) ==      \* unsigned a < b: at the most significant differing byte
  \E i \in 1..Len(a) : a[i] < b[i] /\ \A j \in (i + 1)..Len(a) : a[j] = b[j]
FlipTop(w) == [w EXCEPT ![Len(w)] = (@ + 128) % 256]
SLess(a, b) == ULess(FlipTop(a), FlipTop(b))
UMax(a, b) == IF ULess(a, b) THEN b ELSE a
UMin(a, b) == IF ULess(b, a) THEN b ELSE a
SMax(a, b) == IF SLess(a, b) THEN b ELSE a
SMin(a, b) == IF SLess(b, a) THEN b ELSE a

\* extreme values
MaxS(n) == [i \in 1..n |-> IF i = n THEN 127 ELSE 255]
MinS(n) == [i \in 1..n |-> IF i = n THEN 128 ELSE 0]

\* saturate a signed word w (wider) into n bytes, as signed / as unsigned range
ClampS(w, n) == LET m == Len(w) IN
  IF SLess(ExtS(MaxS(n), m), w) THEN MaxS(n)
  ELSE IF SLess(w, ExtS(MinS(n), m)) THEN MinS(n) ELSE Low(w, n)
ClampU(w, n) == LET m == Len(w) IN      \* w signed: below 0 -> 0, above 2^(8n)-1 -> all ones
  IF IsNeg(w) THEN Zero(n)
  ELSE IF ULess(ExtU(Ones(n), m), w) THEN Ones(n) ELSE Low(w, n)

\* full unsigned product: Len(a) + Len(b) bytes (schoolbook, column sums stay below 2^21)
MulU(a, b) ==
  LET n == Len(a)  m == Len(b)
      Col(k) == LET idx == { i \in 1..n : k + 1 - i \in 1..m } IN
                LET S[j \in 0..n] == IF j = 0 THEN 0
                                     ELSE S[j - 1] + (IF j \in idx THEN a[j] * b[k + 1 - j] ELSE 0) IN S[n]
      Acc[k \in 0..(n + m)] == IF k = 0 THEN 0 ELSE Col(k) + (Acc[k - 1] \div 256)
  IN [k \in 1..(n + m) |-> Acc[k] % 256]
Abs(w) == IF IsNeg(w) THEN Neg(w) ELSE w
\* full signed product
MulS(a, b) == LET p == MulU(Abs(a), Abs(b)) IN IF IsNeg(a) # IsNeg(b) THEN Neg(p) ELSE p

\* shifts by k bits, 0 <= k (bits shifted out are lost; k >= width gives 0 / the sign)
Pow2(r) == CASE r = 0 -> 1 [] r = 1 -> 2 [] r = 2 -> 4 [] r = 3 -> 8 [] r = 4 -> 16 [] r = 5 -> 32
             [] r = 6 -> 64 [] r = 7 -> 128
At(w, i, fill) == IF i >= 1 /\ i <= Len(w) THEN w[i] ELSE fill
Shl(w, k) == LET s == k \div 8  r == k % 8 IN
  [i \in 1..Len(w) |-> ((At(w, i - s, 0) * Pow2(r)) % 256) + ((At(w, i - s - 1, 0) * Pow2(r)) \div 256)]
ShrFill(w, k, fill) == LET s == k \div 8  r == k % 8 IN
  [i \in 1..Len(w) |-> (At(w, i + s, fill) \div Pow2(r)) + ((At(w, i + s + 1, fill) * Pow2(8 - r)) % 256)]
Pow2x(r) == IF r = 8 THEN 256 ELSE Pow2(r)
ShrU(w, k) == LET s == k \div 8  r == k % 8 IN
  [i \in 1..Len(w) |-> (At(w, i + s, 0) \div Pow2(r)) + ((At(w, i + s + 1, 0) * Pow2x(8 - r)) % 256)]
ShrS(w, k) == LET s == k \div 8  r == k % 8  f == IF IsNeg(w) THEN 255 ELSE 0 IN
  [i \in 1..Len(w) |-> (At(w, i + s, f) \div Pow2(r)) + ((At(w, i + s + 1, f) * Pow2x(8 - r)) % 256)]

Reverse(w) == [i \in 1..Len(w) |-> w[Len(w) + 1 - i]]
=============================================================================
