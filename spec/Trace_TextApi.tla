--------------------------- MODULE Trace_TextApi ---------------------------
(***************************************************************************)
(* C15: a function written in .orc syntax denotes the program built        *)
(* through the construction API.  For each file the abstract program it    *)
(* was rendered from (PROGS, ndjson: f, prog) is known; the Parse event    *)
(* carries the bytecode of the parsed program (`text`) and of its API twin  *)
(* (`api`).  Verdict: the parse yields one program, and both serialise to    *)
(* the same bytes.  With the specification in the loop:   *)
(* Bytecode!Encode of the abstract program equals those bytes, and          *)
(* Bytecode!Decode(text) is the abstract program (nothing dropped or        *)
(* reordered).                                                              *)
(***************************************************************************)
EXTENDS Bytecode, IOUtils

TraceLog == ndJsonDeserialize(IOEnv.TRACE)
ProgLog == ndJsonDeserialize(IOEnv.PROGS)
ProgOf(f) == ProgLog[CHOOSE i \in 1..Len(ProgLog) : ProgLog[i].f = f].prog

VARIABLES l
Ev == TraceLog[l]
TInit == l = 1
TParse ==
  /\ l <= Len(TraceLog) /\ Ev.e = "Parse" /\ l' = l + 1
  /\ Ev.nprogs = 1      \* (the parser's end-of-function lint -- a temporary read before it is written,
                        \*  a destination written twice -- may add error records; they must not
                        \*  change the program, which the next two conjuncts check)
  /\ Ev.text = Ev.api
  /\ Decode(Ev.text) = Norm(ProgOf(Ev.f))
  /\ (Encode(ProgOf(Ev.f)) # Ev.api => PrintT(<<"DRIFT", "Encode(prog) differs from the library's bytes", l>>))
TOther == l <= Len(TraceLog) /\ Ev.e \notin {"Parse", "Died", "Crash"} /\ l' = l + 1
TNext == TParse \/ TOther
TSpec == TInit /\ [][TNext]_l
Consumed == TLCGet("stats").diameter - 1
TraceAccepted ==
  IF Consumed = Len(TraceLog) THEN TRUE
  ELSE Print(<<"REJECTED_AT", Consumed + 1, "of", Len(TraceLog)>>, FALSE)
=============================================================================
