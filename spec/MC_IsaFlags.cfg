SPECIFICATION Spec
INVARIANTS TableIsFunction Monotone DumpInv
CHECK_DEADLOCK FALSE
