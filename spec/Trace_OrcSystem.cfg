SPECIFICATION TSpec
INVARIANTS InvC05 InvC06 InvC16
POSTCONDITION TraceAccepted
CHECK_DEADLOCK FALSE
