------------------------------ MODULE OrcProg ------------------------------
(***************************************************************************)
(* What a whole Orc program computes (C01, C04, C07): per element, the      *)
(* instructions are applied in order to an environment of variable values   *)
(* -- array variables start with the element of their array, constants and  *)
(* parameters with their value, temporaries are written before they are     *)
(* read -- and the final values of the destination variables are the        *)
(* elements of the destination arrays; accumulators sum over all elements   *)
(* of all rows from zero.  Rows of a 2-D program are independent.           *)
(*                                                                          *)
(* A program (as logged by harness/h_prog):                                 *)
(*   vars   sequence of <<slot, kind, size>>, kind in "d" "s" "t" "c" "p" "a"*)
(*   consts sequence of <<slot, word>> (constants and parameter values)     *)
(*   insns  sequence of <<name, mult, dests, srcs, sa, sb>>                 *)
(***************************************************************************)
EXTENDS OrcOps, TLC

Lookup(pairs, k) == pairs[CHOOSE i \in 1..Len(pairs) : pairs[i][1] = k][2]
Has(pairs, k) == \E i \in 1..Len(pairs) : pairs[i][1] = k
KindOf(vars, s) == vars[CHOOSE i \in 1..Len(vars) : vars[i][1] = s][2]
SizeOf(vars, s) == vars[CHOOSE i \in 1..Len(vars) : vars[i][1] = s][3]
Slots(vars, kinds) == { vars[i][1] : i \in { j \in 1..Len(vars) : vars[j][2] \in kinds } }

\* one instruction on an environment env (function slot -> word); accumulators are kept in env too
StepInsn(env, ins) ==
  LET name == ins[1]  x == ins[2]  ds == ins[3]  ss == ins[4]  sa == ins[5]  sb == ins[6]
      a == env[ss[1]]
      b == IF Len(ss) >= 2 THEN env[ss[2]] ELSE <<>>
  IN IF name \in Accumulating
       THEN LET F[k \in 0..x] == IF k = 0 THEN env[ds[1]]
                                 ELSE AccStep(name, F[k - 1], Lane(a, k, sa), IF sb = 0 THEN <<>> ELSE Lane(b, k, sb))
            IN [env EXCEPT ![ds[1]] = F[x]]
     ELSE IF name \in TwoDest
       THEN [env EXCEPT ![ds[1]] = Concat2([k \in 1..x |-> Op2D(name, Lane(a, k, sa))[1]]),
                        ![ds[2]] = Concat2([k \in 1..x |-> Op2D(name, Lane(a, k, sa))[2]])]
     ELSE [env EXCEPT ![ds[1]] = OpX(name, x, a, b, sa, sb)]

RECURSIVE RunInsns(_, _, _)
RunInsns(env, insns, k) == IF k > Len(insns) THEN env ELSE RunInsns(StepInsn(env, insns[k]), insns, k + 1)

Elem(w, i, size) == SubSeq(w, (i - 1) * size + 1, i * size)

\* environment of element i of a row: arrays from `row` (sequence of <<slot, bytes of the row>>),
\* constants/parameters from consts, temporaries zero, accumulators from acc
Env0(vars, consts, row, acc, i) ==
  [s \in Slots(vars, {"d", "s", "t", "c", "p", "a"}) |->
     CASE KindOf(vars, s) \in {"d", "s"} -> Elem(Lookup(row, s), i, SizeOf(vars, s))
       [] KindOf(vars, s) \in {"c", "p"} -> Lookup(consts, s)
       [] KindOf(vars, s) = "a" -> acc[s]
       [] OTHER -> Zero(SizeOf(vars, s))]

\* the whole row: <<destination contents expected, accumulators after the row>>
RowResult(vars, consts, insns, row, acc0, n) ==
  LET A == Slots(vars, {"a"})
      F[i \in 0..n] == IF i = 0 THEN [env |-> <<>>, acc |-> acc0, out |-> [s \in Slots(vars, {"d"}) |-> <<>>]]
                       ELSE LET e == RunInsns(Env0(vars, consts, row, F[i - 1].acc, i), insns, 1) IN
                              [env |-> <<>>, acc |-> [s \in A |-> e[s]],
                               out |-> [s \in Slots(vars, {"d"}) |-> F[i - 1].out[s] \o e[s]]]
  IN F[n]
=============================================================================
