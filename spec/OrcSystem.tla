----------------------------- MODULE OrcSystem -----------------------------
(***************************************************************************)
(* The library as an application sees it: programs, the code objects they  *)
(* own or have handed over, executors, and the resources behind them.  One *)
(* action per public API call (orcprogram.c, orccompiler.c, orccode.c,     *)
(* orcexecutor.c).  Serves C16 (life cycle / resource accounting), C05     *)
(* (result classes and their post-states), C06 (dispatch) and C17          *)
(* (determinism) -- each as invariants over this one state.                *)
(*                                                                         *)
(* The compile action is written from the exit table in DESIGN.md          *)
(* appendix C (E0 .. E9).                                                  *)
(***************************************************************************)
EXTENDS Naturals, FiniteSets, Sequences, TLC, Json

CONSTANTS Progs,        \* program slots
          Codes,        \* slots for code objects taken from programs
          Targets,      \* subset of {"avx", "sse", "null"}
          Modes,        \* values of ORC_CODE explored: subset of {"jit","backup","emulate"}
          MaxHist, DumpFile,
          E0KeepsCode   \* TRUE: compile of a program that carries an error returns
                        \* before dropping the previous code (the code before its fix)

VARIABLES mode,     \* ORC_CODE of this process
          prog,     \* [Progs -> program record]
          tcode,    \* [Codes -> taken code record]
          heap,     \* ghost: set of live resources
          bad,      \* ghost: a resource was released twice / used after release
          last,     \* ghost: [op, cls] of the last step (for the classification invariants)
          hist

vars == <<mode, prog, tcode, heap, bad, last, hist>>

Shapes == {"good", "long", "sizebad", "norule"}
\* good    : compiles to native code on avx and sse
\* sizebad : operand size mismatch, rejected by the size check (fatal, E1)
\* long    : like good, but a dozen instructions with array operands, so that the
\*           compiler's temporaries reach the upper variable slots
\* norule  : valid, but uses an opcode without a rule under the flags used (E6)

NoProg == [live |-> FALSE, shape |-> "good", err |-> FALSE, backup |-> FALSE,
           code |-> FALSE, chunk |-> FALSE, exec |-> "null", asm |-> FALSE, tgt |-> "null"]
NoCode == [live |-> FALSE, chunk |-> FALSE, exec |-> "null", shape |-> "good"]

\* resources: <<"prog",p>>, <<"pcode",p>> (the OrcCode struct + tables owned by p),
\* <<"pchunk",p>>, <<"tcode",c>>, <<"tchunk",c>>, <<"asm",p>>, <<"err",p>>

Init ==
  /\ mode \in Modes
  /\ prog = [p \in Progs |-> NoProg]
  /\ tcode = [c \in Codes |-> NoCode]
  /\ heap = {}
  /\ bad = FALSE
  /\ last = [op |-> "init", cls |-> "-", p |-> 0]
  /\ hist = <<>>
  /\ TLCSet(1, <<>>)

Rec(op) == hist' = Append(hist, op)
\* only compiles are remembered (the classification invariants read them);
\* everything else collapses, which keeps `last` cheap in the VIEW
Step(op, cls, p) == last' = IF op = "compile" THEN [op |-> op, cls |-> cls, p |-> p]
                                              ELSE [op |-> "other", cls |-> "-", p |-> 0]

New(p, shape) ==
  /\ ~prog[p].live
  /\ prog' = [prog EXCEPT ![p] = [NoProg EXCEPT !.live = TRUE, !.shape = shape]]
  /\ heap' = heap \cup {<<"prog", p>>}
  /\ UNCHANGED <<mode, tcode, bad>>
  /\ Step("new", "-", p) /\ Rec([op |-> "new", p |-> p, a |-> shape])

\* an append the API rejects (unknown opcode): records an error in the program
BadAppend(p) ==
  /\ prog[p].live
  /\ prog' = [prog EXCEPT ![p].err = TRUE]
  /\ heap' = heap \cup {<<"err", p>>}
  /\ UNCHANGED <<mode, tcode, bad>>
  /\ Step("badappend", "-", p) /\ Rec([op |-> "badappend", p |-> p, a |-> ""])

\* an append the API accepts but the compiler's size check rejects (E1 next time)
Spoil(p) ==
  /\ prog[p].live /\ prog[p].shape \in {"good", "long"}
  /\ prog' = [prog EXCEPT ![p].shape = "sizebad"]
  /\ UNCHANGED <<mode, tcode, heap, bad>>
  /\ Step("spoil", "-", p) /\ Rec([op |-> "spoil", p |-> p, a |-> ""])

SetBackup(p) ==
  /\ prog[p].live /\ ~prog[p].backup
  /\ prog' = [prog EXCEPT ![p].backup = TRUE]
  /\ UNCHANGED <<mode, tcode, heap, bad>>
  /\ Step("backup", "-", p) /\ Rec([op |-> "backup", p |-> p, a |-> ""])

CodeRes(p) == {<<"pcode", p>>} \cup (IF prog[p].chunk THEN {<<"pchunk", p>>} ELSE {})
DropCode(pr) == [pr EXCEPT !.code = FALSE, !.chunk = FALSE]
Fallback(p) == IF prog[p].backup THEN "backup" ELSE "emu"

\* Outcome of orc_program_compile_for_target as a function of the program
\* record, ORC_CODE and the target: the new record and the result class
\* (S successful, F fatal, O neither).  Exits E0..E9 of DESIGN.md appendix C.
CompileOutcome(pr, md, tgt) ==
  LET fb == IF pr.backup THEN "backup" ELSE "emu"
      p0 == [DropCode(pr) EXCEPT !.asm = FALSE, !.exec = fb, !.tgt = tgt]
      soft(ex) == [p0 EXCEPT !.code = TRUE, !.err = TRUE, !.exec = ex]
  IN
  IF pr.err THEN                                                    \* E0
       IF E0KeepsCode THEN [rec |-> pr, cls |-> "F"]
                      ELSE [rec |-> [p0 EXCEPT !.tgt = pr.tgt], cls |-> "F"]
  ELSE IF pr.shape = "sizebad" THEN [rec |-> p0, cls |-> "F"]       \* E1 (error text not recorded)
  ELSE IF pr.backup /\ (md = "backup" \/ tgt = "null")
       THEN [rec |-> soft("backup"), cls |-> "O"]                   \* E3
  ELSE IF md = "emulate" \/ tgt = "null"
       THEN [rec |-> soft("emu"), cls |-> "O"]                      \* E4
  ELSE IF pr.shape = "norule" THEN [rec |-> soft(fb), cls |-> "O"]  \* E6
  ELSE [rec |-> [p0 EXCEPT !.code = TRUE, !.chunk = TRUE, !.exec = "jit", !.asm = TRUE],
        cls |-> "S"]                                                \* E9

\* resources held on behalf of program p when its record is pr
ProgRes(p, pr) ==
  IF ~pr.live THEN {} ELSE
    {<<"prog", p>>} \cup (IF pr.code THEN {<<"pcode", p>>} ELSE {})
      \cup (IF pr.chunk THEN {<<"pchunk", p>>} ELSE {})
      \cup (IF pr.asm THEN {<<"asm", p>>} ELSE {})
      \cup (IF pr.err THEN {<<"err", p>>} ELSE {})

Compile(p, tgt) ==
  /\ prog[p].live
  /\ LET o == CompileOutcome(prog[p], mode, tgt) IN
       /\ prog' = [prog EXCEPT ![p] = o.rec]
       /\ heap' = (heap \ ProgRes(p, prog[p])) \cup ProgRes(p, o.rec)
       /\ Step("compile", o.cls, p)
  /\ UNCHANGED <<mode, tcode, bad>>
  \* the class the model expects travels with the behaviour: the replayer stops a
  \* behaviour at the first compile whose class differs (the rest of the
  \* behaviour was generated for a state the implementation is not in)
  /\ Rec([op |-> "compile", p |-> p, a |-> tgt \o "/" \o CompileOutcome(prog[p], mode, tgt).cls])

\* orc_program_take_code: ownership of the code object moves to the application
TakeCode(p, c) ==
  /\ prog[p].live /\ prog[p].code /\ ~tcode[c].live
  /\ tcode' = [tcode EXCEPT ![c] = [live |-> TRUE, chunk |-> prog[p].chunk,
                                    exec |-> prog[p].exec, shape |-> prog[p].shape]]
  /\ prog' = [prog EXCEPT ![p] = DropCode(@)]
  /\ heap' = (heap \ CodeRes(p)) \cup {<<"tcode", c>>}
                \cup (IF prog[p].chunk THEN {<<"tchunk", c>>} ELSE {})
  /\ UNCHANGED <<mode, bad>>
  /\ Step("take", "-", p) /\ Rec([op |-> "take", p |-> p, a |-> c])

Reset(p) ==
  /\ prog[p].live
  /\ prog' = [prog EXCEPT ![p] = [DropCode(@) EXCEPT !.asm = FALSE, !.err = FALSE]]
  /\ heap' = ((heap \ (IF prog[p].code THEN CodeRes(p) ELSE {})) \ {<<"asm", p>>}) \ {<<"err", p>>}
  /\ UNCHANGED <<mode, tcode, bad>>
  /\ Step("reset", "-", p) /\ Rec([op |-> "reset", p |-> p, a |-> ""])

FreeProg(p) ==
  /\ prog[p].live
  /\ prog' = [prog EXCEPT ![p] = NoProg]
  /\ heap' = heap \ ({<<"prog", p>>, <<"asm", p>>, <<"err", p>>} \cup
                      (IF prog[p].code THEN CodeRes(p) ELSE {}))
  /\ UNCHANGED <<mode, tcode, bad>>
  /\ Step("freep", "-", p) /\ Rec([op |-> "freep", p |-> p, a |-> ""])

FreeCode(c) ==
  /\ tcode[c].live
  /\ tcode' = [tcode EXCEPT ![c] = NoCode]
  /\ heap' = heap \ {<<"tcode", c>>, <<"tchunk", c>>}
  /\ UNCHANGED <<mode, prog, bad>>
  /\ Step("freec", "-", c) /\ Rec([op |-> "freec", p |-> c, a |-> ""])

\* executor attached to the program: dispatches on program->code_exec
Run(p) ==
  /\ prog[p].live /\ prog[p].code      \* emulation and JIT both need the code object
  /\ bad' = (bad \/ (prog[p].exec = "jit" /\ <<"pchunk", p>> \notin heap))
  /\ UNCHANGED <<mode, prog, tcode, heap>>
  /\ Step("run", prog[p].exec, p) /\ Rec([op |-> "run", p |-> p, a |-> ""])

\* code-only executor (program == NULL): dispatches on code->exec
RunCode(c) ==
  /\ tcode[c].live
  /\ bad' = (bad \/ (tcode[c].exec = "jit" /\ <<"tchunk", c>> \notin heap))
  /\ UNCHANGED <<mode, prog, tcode, heap>>
  /\ Step("runc", tcode[c].exec, c) /\ Rec([op |-> "runc", p |-> c, a |-> ""])

DoNew      == \E p \in Progs, s \in Shapes : New(p, s)
DoAppend   == \E p \in Progs : BadAppend(p)
DoBackup   == \E p \in Progs : SetBackup(p)
DoSpoil    == \E p \in Progs : Spoil(p)
DoCompile  == \E p \in Progs, t \in Targets : Compile(p, t)
DoTake     == \E p \in Progs, c \in Codes : TakeCode(p, c)
DoReset    == \E p \in Progs : Reset(p)
DoFreeProg == \E p \in Progs : FreeProg(p)
DoFreeCode == \E c \in Codes : FreeCode(c)
DoRun      == \E p \in Progs : Run(p)
DoRunCode  == \E c \in Codes : RunCode(c)

Next == DoNew \/ DoAppend \/ DoSpoil \/ DoBackup \/ DoCompile \/ DoTake \/ DoReset
        \/ DoFreeProg \/ DoFreeCode \/ DoRun \/ DoRunCode

Spec == Init /\ [][Next]_vars

-----------------------------------------------------------------------------
(* C16: every resource is released exactly once *)

Expected ==   \* the resources the visible state accounts for
  UNION { ({<<"prog", p>>} \cup (IF prog[p].code THEN CodeRes(p) ELSE {})
             \cup (IF prog[p].asm THEN {<<"asm", p>>} ELSE {})
             \cup (IF prog[p].err THEN {<<"err", p>>} ELSE {}))
          : p \in {q \in Progs : prog[q].live} }
  \cup UNION { ({<<"tcode", c>>} \cup (IF tcode[c].chunk THEN {<<"tchunk", c>>} ELSE {}))
          : c \in {d \in Codes : tcode[d].live} }

NoLeak == heap = Expected             \* in particular heap = {} at quiescence
NoUseAfterFree == ~bad
ChunksUsed == Cardinality({r \in heap : r[1] \in {"pchunk", "tchunk"}})

\* a taken code object stays valid whatever happens to the program
TakenOutlives == \A c \in Codes : (tcode[c].live /\ tcode[c].chunk) => <<"tchunk", c>> \in heap

(* C05: the result class fixes the post-state *)
FatalNoCode ==
  (last.op = "compile" /\ last.cls = "F") =>
     (~prog[last.p].chunk /\ prog[last.p].exec # "jit")
SuccessCallable ==
  (last.op = "compile" /\ last.cls = "S") =>
     (prog[last.p].chunk /\ prog[last.p].exec = "jit" /\ <<"pchunk", last.p>> \in heap)
OtherRunnable ==
  (last.op = "compile" /\ last.cls = "O") =>
     (prog[last.p].code /\ prog[last.p].exec \in {"emu", "backup"})

(* C06: native code runs only when code memory is held.  (After take_code or
   reset the program keeps a stale entry point; running it is not a legal use,
   which the guard of Run expresses.) *)
JitHasMemory ==
  /\ \A p \in Progs : (prog[p].live /\ prog[p].code /\ prog[p].exec = "jit") => prog[p].chunk
  /\ \A c \in Codes : (tcode[c].live /\ tcode[c].exec = "jit") => tcode[c].chunk

-----------------------------------------------------------------------------
View == <<mode, prog, tcode, heap, bad, last>>   \* everything an invariant reads
Bounded == MaxHist = 0 \/ Len(hist) < MaxHist
\* behaviour output: one stdout line per generated transition (model checking,
\* ACTION_CONSTRAINT RecEdge) or per simulated behaviour (INVARIANT SimDump)
RecEdge == \/ DumpFile = ""
           \/ PrintT("EDGE " \o mode \o " " \o (IF heap' = {} THEN "1" ELSE "0") \o " " \o ToJson(hist'))
SimDump == \/ Len(hist) # MaxHist
           \/ PrintT("BEH " \o mode \o " " \o (IF heap = {} THEN "1" ELSE "0") \o " " \o ToJson(hist))
=============================================================================
