------------------------ MODULE Trace_TargetSelect ------------------------
(***************************************************************************)
(* Validation of Target events (harness/h_target) against the property     *)
(* half of TargetSelect: for the CPU the library was shown,                *)
(*   - a target marked executable is supported by CPU and OS,              *)
(*   - without override, or with one that names no registered back end,   *)
(*     the default target is the best supported one,                       *)
(*   - default flags claim no feature the CPU lacks,                       *)
(*   - a registered, supported target named by the override is used,       *)
(*   - whatever the override, the default compile path yields something    *)
(*     that runs here and gives the right result.                          *)
(***************************************************************************)
EXTENDS Naturals, Sequences, FiniteSets, TLC, Json, IOUtils

TraceLog == ndJsonDeserialize(IOEnv.TRACE)
\* which environment variable is the override: "ORC_BACKEND" (what the code reads) or,
\* with DOC=1, also "ORC_TARGET" (what doc/running.xml documents)
Honoured(var) == var = "ORC_BACKEND" \/ ("DOC" \in DOMAIN IOEnv /\ IOEnv.DOC = "1" /\ var = "ORC_TARGET")

VARIABLES cpu, xcr0, override, l
INSTANCE TargetSelect WITH Overrides <- {}
tvars == <<cpu, xcr0, override, l>>
Ev == TraceLog[l]
ToSet(s) == { s[i] : i \in 1..Len(s) }

TInit == cpu = {} /\ xcr0 = 0 /\ override = "" /\ l = 1

TTarget ==
  /\ l <= Len(TraceLog) /\ Ev.e = "Target" /\ l' = l + 1
  /\ LET c == ToSet(Ev.cpu)
         x == Ev.xcr0
         o == IF Honoured(Ev.var) THEN Ev.val ELSE ""
         sse == ToSet(Ev.f_sse)  avx == ToSet(Ev.f_avx)  mmx == ToSet(Ev.f_mmx)
     IN
       /\ cpu' = c /\ xcr0' = x /\ override' = o
       /\ (Ev.x_mmx = 1 => Supported("mmx", c, x))
       /\ (Ev.x_sse = 1 => Supported("sse", c, x))
       /\ (Ev.x_avx = 1 => Supported("avx", c, x))
       /\ ((o = "" \/ ~IsRegistered(o)) => Ev.dflt = Best(c, x))     \* no (valid) request: the best one
       /\ ((o # "" /\ IsRegistered(o) /\ Supported(o, c, x)) => Ev.dflt = o)
       /\ (Ev.dflt = "none" \/ Supported(Ev.dflt, c, x))
       /\ (Ev.dflt # "none" => Ev.ran = 1)
       /\ (sse \cap Features) \subseteq c /\ (avx \cap Features) \subseteq c
       /\ (({"AVX", "AVX2"} \cap (sse \cup avx)) # {} => OsYmm(c, x))
       /\ ((mmx \cap Features) \subseteq c)
       /\ ("MMXEXT" \in mmx => "SSE2" \in c)

TOther == /\ l <= Len(TraceLog) /\ Ev.e \notin {"Target", "Died", "Crash"}
          /\ l' = l + 1 /\ UNCHANGED <<cpu, xcr0, override>>

TNext == TTarget \/ TOther
TSpec == TInit /\ [][TNext]_tvars

Consumed == TLCGet("stats").diameter - 1
TraceAccepted ==
  IF Consumed = Len(TraceLog) THEN TRUE
  ELSE Print(<<"REJECTED_AT", Consumed + 1, "of", Len(TraceLog)>>, FALSE)
=============================================================================
