------------------------------ MODULE OrcFloat ------------------------------
(***************************************************************************)
(* What the float and double opcodes of the "sys" set mean (C18).  A float *)
(* is a word of 4 bytes, a double a word of 8 bytes, in memory order        *)
(* (OrcWord): IEEE-754 binary32 / binary64.  The specification owns every   *)
(* rule the property states:                                                *)
(*   - denormal inputs count as zero of the same sign (Flush), denormal     *)
(*     results become zero of the same sign;                                *)
(*   - comparisons give all-ones / zero masks, false whenever a NaN is      *)
(*     involved, +0 = -0;                                                   *)
(*   - min / max select one of the (flushed) operands, either one when they *)
(*     are numerically equal, a NaN when an operand is a NaN;               *)
(*   - float -> int conversions truncate and saturate, int -> float rounds  *)
(*     to nearest even, float -> double is exact;                           *)
(*   - a NaN operand never gives a non-NaN arithmetic result.               *)
(* These are defined exactly, bit for bit, from the bytes.  Only the        *)
(* correctly rounded core of + - * / sqrt and double -> float on numbers    *)
(* is taken from the host's IEEE arithmetic: the trace supplies h = op      *)
(* applied to the flushed operands in round-to-nearest, and the             *)
(* specification checks that the operands were flushed as it says, that h   *)
(* is sane (OracleSane: every special case and the sign/exponent window     *)
(* are fixed here), and that the result is Flush(h).                        *)
(***************************************************************************)
EXTENDS OrcWord, Integers, FiniteSets

N(w) == Len(w)
SignBit(w) == w[Len(w)] \div 128
ExpOf(w) == IF Len(w) = 4 THEN (w[4] % 128) * 2 + (w[3] \div 128)
            ELSE (w[8] % 128) * 16 + (w[7] \div 16)
ExpMax(n) == IF n = 4 THEN 255 ELSE 2047
Bias(n) == IF n = 4 THEN 127 ELSE 1023
ManBits(n) == IF n = 4 THEN 23 ELSE 52
\* the fraction field alone (sign and exponent cleared)
Frac(w) == IF Len(w) = 4 THEN <<w[1], w[2], w[3] % 128, 0>>
           ELSE <<w[1], w[2], w[3], w[4], w[5], w[6], w[7] % 16, 0>>
\* significand with the implicit bit (normal numbers)
Sig(w) == IF Len(w) = 4 THEN <<w[1], w[2], (w[3] % 128) + 128, 0>>
          ELSE <<w[1], w[2], w[3], w[4], w[5], w[6], (w[7] % 16) + 16, 0>>
FracZero(w) == Frac(w) = Zero(Len(w))
IsNaN(w) == ExpOf(w) = ExpMax(Len(w)) /\ ~FracZero(w)
IsInf(w) == ExpOf(w) = ExpMax(Len(w)) /\ FracZero(w)
IsZero(w) == ExpOf(w) = 0 /\ FracZero(w)
IsDenormal(w) == ExpOf(w) = 0 /\ ~FracZero(w)
IsFinite(w) == ExpOf(w) # ExpMax(Len(w))
SZero(s, n) == [i \in 1..n |-> IF i = n THEN 128 * s ELSE 0]
Flush(w) == IF ExpOf(w) = 0 THEN SZero(SignBit(w), Len(w)) ELSE w
Mag(w) == [w EXCEPT ![Len(w)] = @ % 128]
FNeg(w) == [w EXCEPT ![Len(w)] = (@ + 128) % 256]

Pack4(s, e, f) == <<f[1], f[2], (f[3] % 128) + (e % 2) * 128, s * 128 + (e \div 2)>>
Pack8(s, e, f) == <<f[1], f[2], f[3], f[4], f[5], f[6], (f[7] % 16) + (e % 16) * 16, s * 128 + (e \div 16)>>
Pack(n, s, e, f) == IF n = 4 THEN Pack4(s, e, f) ELSE Pack8(s, e, f)
InfW(s, n) == Pack(n, s, ExpMax(n), Zero(n))
OneW(n) == Pack(n, 0, Bias(n), Zero(n))

\* order of two flushed non-NaN values
FLess(a, b) ==
  LET sa == SignBit(a)  sb == SignBit(b) IN
  CASE sa = 1 /\ sb = 0 -> ~(IsZero(a) /\ IsZero(b))
    [] sa = 0 /\ sb = 1 -> FALSE
    [] sa = 0 /\ sb = 0 -> ULess(Mag(a), Mag(b))
    [] sa = 1 /\ sb = 1 -> ULess(Mag(b), Mag(a))
FEq(a, b) == a = b \/ (IsZero(a) /\ IsZero(b))

\* ----------------------------------------------------------------- results
\* a result is exact, any NaN, one of a set, or unconstrained
Exact(v) == [k |-> "exact", v |-> v]
AnyNaN == [k |-> "nan"]
OneOf(S) == [k |-> "oneof", vs |-> S]
Any == [k |-> "any"]
Meets(r, d) == CASE r.k = "exact" -> d = r.v
                 [] r.k = "nan" -> IsNaN(d)
                 [] r.k = "oneof" -> d \in r.vs
                 [] r.k = "any" -> TRUE

MaskW(c, n) == IF c THEN Ones(n) ELSE Zero(n)
Cmp(kind, a, b) ==
  LET x == Flush(a)  y == Flush(b)  n == Len(a) IN
  IF IsNaN(x) \/ IsNaN(y) THEN Exact(Zero(n))
  ELSE Exact(MaskW(CASE kind = "eq" -> FEq(x, y) [] kind = "lt" -> FLess(x, y)
                     [] kind = "le" -> FLess(x, y) \/ FEq(x, y), n))

MinMax(kind, a, b) ==
  LET x == Flush(a)  y == Flush(b) IN
  IF IsNaN(x) \/ IsNaN(y) THEN AnyNaN
  ELSE IF FLess(x, y) THEN Exact(IF kind = "min" THEN x ELSE y)
  ELSE IF FLess(y, x) THEN Exact(IF kind = "min" THEN y ELSE x)
  ELSE OneOf({x, y})

\* ----------------------------------------------------------------- conversions
RECURSIVE P2(_)
P2(k) == IF k = 0 THEN 1 ELSE 2 * P2(k - 1)
Bit(w, i) == (w[(i \div 8) + 1] \div P2(i % 8)) % 2
Msb(w) == CHOOSE p \in 0..(8 * Len(w) - 1) : Bit(w, p) = 1 /\ \A q \in (p + 1)..(8 * Len(w) - 1) : Bit(w, q) = 0
IntMax4 == <<255, 255, 255, 127>>
IntMin4 == <<0, 0, 0, 128>>

\* float / double -> 32-bit integer: truncation, saturation; a NaN converts to anything
ConvToInt(a) ==
  LET n == Len(a)  e == ExpOf(a)  s == SignBit(a)  k == e - Bias(n) IN
  IF IsNaN(a) THEN Any
  ELSE IF e < Bias(n) THEN Exact(Zero(4))
  ELSE IF k >= 31 THEN Exact(IF s = 1 THEN IntMin4 ELSE IntMax4)
  ELSE LET mag == Low(IF k <= ManBits(n) THEN ShrU(Sig(a), ManBits(n) - k) ELSE Shl(Sig(a), k - ManBits(n)), 4)
       IN Exact(IF s = 1 THEN Neg(mag) ELSE mag)

\* 32-bit (or sign-extended 16-bit) integer -> float: round to nearest even
ConvIntToF(v) ==
  LET s == IF IsNeg(v) THEN 1 ELSE 0
      m == Abs(v)                                  \* as an unsigned word; 2^31 for the minimum
  IN IF m = Zero(4) THEN Exact(Zero(4))
     ELSE LET p == Msb(m) IN
       IF p <= 23 THEN Exact(Pack4(s, 127 + p, Frac(Shl(m, 23 - p))))
       ELSE LET sh == p - 23
                q == ShrU(m, sh)
                rem == m[1] % P2(sh)
                half == P2(sh - 1)
                up == rem > half \/ (rem = half /\ q[1] % 2 = 1)
                q2 == IF up THEN Inc(q) ELSE q
            IN IF q2 = <<0, 0, 0, 1>> THEN Exact(Pack4(s, 127 + p + 1, Zero(4)))
               ELSE Exact(Pack4(s, 127 + p, Frac(q2)))
\* 32-bit integer -> double: exact
ConvIntToD(v) ==
  LET s == IF IsNeg(v) THEN 1 ELSE 0
      m == ExtU(Abs(v), 8)
  IN IF m = Zero(8) THEN Exact(Zero(8))
     ELSE LET p == Msb(m) IN Exact(Pack8(s, 1023 + p, Frac(Shl(m, 52 - p))))
\* float -> double: exact on the flushed operand
ConvFD(a) ==
  LET x == Flush(a)  s == SignBit(x) IN
  IF IsNaN(x) THEN AnyNaN
  ELSE IF IsZero(x) THEN Exact(SZero(s, 8))
  ELSE IF IsInf(x) THEN Exact(InfW(s, 8))
  ELSE Exact(Pack8(s, ExpOf(x) + 896, Shl(ExtU(Frac(x), 8), 29)))

\* ----------------------------------------------------------------- the host oracle
\* x, y: flushed operands; h: the host's IEEE result in round-to-nearest.  Every special case
\* is fixed here; for ordinary numbers the sign and the exponent window are.
OracleSane(op, x, y, h) ==
  LET n == Len(x)  sx == SignBit(x)  sy == SignBit(y)  sxy == (sx + sy) % 2  B == Bias(n) IN
  CASE op \in {"add", "sub"} ->
         LET z == IF op = "sub" THEN FNeg(y) ELSE y  sz == SignBit(z) IN
         IF IsNaN(x) \/ IsNaN(y) THEN IsNaN(h)
         ELSE IF IsInf(x) /\ IsInf(z) THEN (IF sx = sz THEN h = x ELSE IsNaN(h))
         ELSE IF IsInf(x) THEN h = x
         ELSE IF IsInf(z) THEN h = z
         ELSE IF IsZero(x) /\ IsZero(z) THEN h = SZero(IF sx = 1 /\ sz = 1 THEN 1 ELSE 0, n)
         ELSE IF IsZero(z) THEN h = x
         ELSE IF IsZero(x) THEN h = z
         ELSE IF Mag(x) = Mag(z) /\ sx # sz THEN h = Zero(n)
         ELSE /\ ~IsNaN(h)
              \* same signs: the sum keeps the sign and does not shrink; the exponent grows by at most 1
              /\ (sx = sz => /\ SignBit(h) = sx
                             /\ ExpOf(h) >= (IF ExpOf(x) > ExpOf(z) THEN ExpOf(x) ELSE ExpOf(z))
                             /\ ExpOf(h) <= (IF ExpOf(x) > ExpOf(z) THEN ExpOf(x) ELSE ExpOf(z)) + 1)
              \* opposite signs: the sign of the larger magnitude, no growth
              /\ (sx # sz => /\ SignBit(h) = (IF ULess(Mag(z), Mag(x)) THEN sx ELSE sz)
                             /\ ExpOf(h) <= (IF ExpOf(x) > ExpOf(z) THEN ExpOf(x) ELSE ExpOf(z)))
    [] op = "mul" ->
         IF IsNaN(x) \/ IsNaN(y) THEN IsNaN(h)
         ELSE IF (IsInf(x) /\ IsZero(y)) \/ (IsZero(x) /\ IsInf(y)) THEN IsNaN(h)
         ELSE IF IsInf(x) \/ IsInf(y) THEN h = InfW(sxy, n)
         ELSE IF IsZero(x) \/ IsZero(y) THEN h = SZero(sxy, n)
         ELSE IF y = OneW(n) THEN h = x
         ELSE IF x = OneW(n) THEN h = y
         ELSE /\ ~IsNaN(h) /\ SignBit(h) = sxy
              /\ LET e == ExpOf(x) + ExpOf(y) IN      \* biased twice
                 IF e >= B + ExpMax(n) THEN IsInf(h)                          \* 2^(ex+ey) overflows
                 ELSE IF e + 1 < B THEN ExpOf(h) = 0                            \* below the normal range
                 ELSE IF IsInf(h) THEN e + 1 >= B + ExpMax(n)
                 ELSE (e <= B /\ ExpOf(h) <= 1) \/ (ExpOf(h) + B >= e /\ ExpOf(h) + B <= e + 1)
    [] op = "div" ->
         IF IsNaN(x) \/ IsNaN(y) THEN IsNaN(h)
         ELSE IF (IsInf(x) /\ IsInf(y)) \/ (IsZero(x) /\ IsZero(y)) THEN IsNaN(h)
         ELSE IF IsInf(x) THEN h = InfW(sxy, n)
         ELSE IF IsInf(y) THEN h = SZero(sxy, n)
         ELSE IF IsZero(y) THEN h = InfW(sxy, n)
         ELSE IF IsZero(x) THEN h = SZero(sxy, n)
         ELSE IF y = OneW(n) THEN h = x
         ELSE IF Mag(x) = Mag(y) THEN h = Pack(n, sxy, B, Zero(n))
         ELSE /\ ~IsNaN(h) /\ SignBit(h) = sxy
              /\ LET ex == ExpOf(x)  ey == ExpOf(y) IN      \* quotient exponent: ex - ey + B or one less
                 IF ex + B >= ey + ExpMax(n) + 1 THEN IsInf(h)
                 ELSE IF ex + B < ey THEN ExpOf(h) = 0
                 ELSE IF IsInf(h) THEN ex + B >= ey + ExpMax(n) - 1 + 1
                 ELSE (ex + B <= ey + 1 /\ ExpOf(h) <= 1) \/ (ExpOf(h) + ey <= ex + B /\ ExpOf(h) + ey + 1 >= ex + B)
    [] op = "sqrt" ->
         IF IsNaN(x) THEN IsNaN(h)
         ELSE IF IsZero(x) THEN h = x
         ELSE IF sx = 1 THEN IsNaN(h)
         ELSE IF IsInf(x) THEN h = x
         ELSE IF x = OneW(n) THEN h = x
         ELSE /\ ~IsNaN(h) /\ SignBit(h) = 0
              /\ 2 * ExpOf(h) >= ExpOf(x) + B - 1 /\ 2 * ExpOf(h) <= ExpOf(x) + B + 1
    [] op = "convdf" ->                                 \* x: double, h: float
         IF IsNaN(x) THEN IsNaN(h)
         ELSE IF IsInf(x) THEN h = InfW(sx, 4)
         ELSE IF IsZero(x) THEN h = SZero(sx, 4)
         ELSE /\ ~IsNaN(h) /\ SignBit(h) = sx
              /\ LET e == ExpOf(x) IN                   \* float exponent e - 896 (or +1 by rounding)
                 IF e >= 896 + 255 THEN IsInf(h)
                 ELSE IF e + 1 < 896 THEN ExpOf(h) = 0
                 ELSE IF IsInf(h) THEN e + 1 >= 896 + 255
                 ELSE (e <= 896 /\ ExpOf(h) <= 1) \/ (ExpOf(h) + 896 >= e /\ ExpOf(h) + 896 <= e + 1)

\* arithmetic through the oracle: operands flushed as specified, oracle sane, result flushed
Arith(op, a, b, fa, fb, h) ==
  LET x == Flush(a)  y == IF op \in {"sqrt", "convdf"} THEN x ELSE Flush(b) IN
  IF fa # x \/ (op \notin {"sqrt", "convdf"} /\ fb # y) \/ ~OracleSane(op, x, y, h)
  THEN [k |-> "badoracle"]
  ELSE IF IsNaN(x) \/ IsNaN(y) \/ IsNaN(h) THEN AnyNaN
  ELSE Exact(Flush(h))

\* ----------------------------------------------------------------- by opcode name
ArithOps == [addf |-> "add", subf |-> "sub", mulf |-> "mul", divf |-> "div", sqrtf |-> "sqrt",
             addd |-> "add", subd |-> "sub", muld |-> "mul", divd |-> "div", sqrtd |-> "sqrt", convdf |-> "convdf"]
FloatOps == DOMAIN ArithOps \cup {"maxf", "minf", "maxd", "mind", "cmpeqf", "cmpltf", "cmplef", "cmpeqd", "cmpltd",
                                  "cmpled", "convfl", "convdl", "convlf", "convld", "convfd", "convwf"}
\* what one lane of a float opcode must be: a, b operand words; fa, fb, h the oracle words (or <<>>)
FOp(name, a, b, fa, fb, h) ==
  CASE name \in DOMAIN ArithOps -> Arith(ArithOps[name], a, b, fa, fb, h)
    [] name \in {"minf", "mind"} -> MinMax("min", a, b)
    [] name \in {"maxf", "maxd"} -> MinMax("max", a, b)
    [] name \in {"cmpeqf", "cmpeqd"} -> Cmp("eq", a, b)
    [] name \in {"cmpltf", "cmpltd"} -> Cmp("lt", a, b)
    [] name \in {"cmplef", "cmpled"} -> Cmp("le", a, b)
    [] name \in {"convfl", "convdl"} -> ConvToInt(a)
    [] name = "convlf" -> ConvIntToF(a)
    [] name = "convwf" -> ConvIntToF(ExtS(a, 4))
    [] name = "convld" -> ConvIntToD(a)
    [] name = "convfd" -> ConvFD(a)
=============================================================================
