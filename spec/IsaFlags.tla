------------------------------ MODULE IsaFlags ------------------------------
(***************************************************************************)
(* Which x86 instruction needs which CPU feature, and which features a set  *)
(* of Orc target flags grants (C11).  An instruction is identified by its   *)
(* mnemonic and the widest vector register class among its operands         *)
(* ("mm", "xmm", "ymm", or "gp" when it has none).  Feature(m, cls) is the   *)
(* ISA's requirement (Intel SDM instruction-set extensions), Grants(target,  *)
(* flags) what the flags allow; code compiled for (target, flags) may       *)
(* contain (m, cls) only if Feature(m, cls) \in Grants(target, flags).      *)
(* The model enumerates every flag subset of every target (CFG lines for    *)
(* the harness) and checks that the table is a function (no mnemonic in two *)
(* feature sets of one class).                                              *)
(***************************************************************************)
EXTENDS Naturals, FiniteSets, Sequences, TLC, Json

\* ----- MMX registers
MmxBase == {"movd", "movq", "packssdw", "packsswb", "packuswb", "paddb", "paddw", "paddd", "paddsb", "paddsw", "paddusb",
  "paddusw", "pand", "pandn", "pcmpeqb", "pcmpeqw", "pcmpeqd", "pcmpgtb", "pcmpgtw", "pcmpgtd", "pmaddwd", "pmulhw",
  "pmullw", "por", "pxor", "pslld", "psllq", "psllw", "psrad", "psraw", "psrld", "psrlq", "psrlw", "psubb", "psubw",
  "psubd", "psubsb", "psubsw", "psubusb", "psubusw", "punpcklbw", "punpcklwd", "punpckldq", "punpckhbw", "punpckhwd",
  "punpckhdq"}
MmxExt == {"pavgb", "pavgw", "pextrw", "pinsrw", "pmaxsw", "pmaxub", "pminsw", "pminub", "pmovmskb", "pmulhuw", "psadbw",
  "pshufw", "movntq", "maskmovq"}
MmxSse2 == {"paddq", "psubq", "pmuludq", "movdq2q", "movq2dq"}
MmxSsse3 == {"pabsb", "pabsw", "pabsd", "pshufb", "psignb", "psignw", "psignd", "palignr", "phaddw", "phaddd", "phaddsw",
  "phsubw", "phsubd", "phsubsw", "pmulhrsw", "pmaddubsw"}
\* ----- XMM registers, legacy encoding
XmmSse2 == {"addps", "subps", "mulps", "divps", "sqrtps", "maxps", "minps", "andps", "andnps", "orps", "xorps", "cmpeqps",
  "cmpltps", "cmpleps", "cmpneqps", "cmpunordps", "movhps", "movlps", "movaps", "movups", "shufps", "unpcklps", "unpckhps",
  "movhlps", "movlhps", "movss", "cvtsi2ss",
  "addpd", "subpd", "mulpd", "divpd", "sqrtpd", "maxpd", "minpd", "andpd", "andnpd", "orpd", "xorpd", "cmpeqpd", "cmpltpd",
  "cmplepd", "cmpneqpd", "cmpunordpd", "cvtdq2pd", "cvtdq2ps", "cvtpd2ps", "cvtps2pd", "cvttpd2dq", "cvttps2dq", "cvtps2dq",
  "cvtpd2dq", "movsd", "movapd", "movupd", "shufpd", "unpcklpd", "unpckhpd",
  "movdqa", "movdqu", "pshufd", "pshufhw", "pshuflw", "pslldq", "psrldq", "punpcklqdq", "punpckhqdq", "movntdq"}
  \cup MmxBase \cup MmxExt \cup {"paddq", "psubq", "pmuludq"}
XmmSse3 == {"movddup", "movshdup", "movsldup", "lddqu", "haddps", "haddpd", "hsubps", "hsubpd", "addsubps", "addsubpd"}
XmmSsse3 == MmxSsse3
XmmSse41 == {"blendvpd", "blendvps", "pblendvb", "blendps", "blendpd", "pblendw", "packusdw", "pcmpeqq", "pextrb", "pextrd",
  "pextrq", "pinsrb", "pinsrd", "pinsrq", "pmaxsb", "pmaxsd", "pmaxud", "pmaxuw", "pminsb", "pminsd", "pminud", "pminuw",
  "pmovsxbw", "pmovsxbd", "pmovsxbq", "pmovsxwd", "pmovsxwq", "pmovsxdq", "pmovzxbw", "pmovzxbd", "pmovzxbq", "pmovzxwd",
  "pmovzxwq", "pmovzxdq", "pmuldq", "pmulld", "ptest", "roundps", "roundpd", "insertps", "extractps", "movntdqa", "mpsadbw",
  "phminposuw", "dpps", "dppd"}
XmmSse42 == {"pcmpgtq", "pcmpestri", "pcmpestrm", "pcmpistri", "pcmpistrm"}
LegacyXmm == XmmSse2 \cup XmmSse3 \cup XmmSsse3 \cup XmmSse41 \cup XmmSse42
\* ----- VEX encoding: the legacy name with "v" in front, plus VEX-only instructions
Avx2Only == {"pbroadcastb", "pbroadcastw", "pbroadcastd", "pbroadcastq", "perm2i128", "permq", "permd", "permps", "permpd",
  "inserti128", "extracti128", "pblendd", "psllvd", "psllvq", "psrlvd", "psrlvq", "psravd", "pmaskmovd", "pmaskmovq",
  "broadcasti128", "gatherdps", "pgatherdd"}
AvxOnly == {"extractf128", "insertf128", "perm2f128", "broadcastss", "broadcastsd", "broadcastf128", "permilps", "permilpd",
  "maskmovps", "maskmovpd", "testps", "testpd", "zeroupper", "zeroall"}
\* 256-bit forms that exist in AVX (floating point and moves); every other 256-bit form is AVX2
Avx256 == {"addps", "subps", "mulps", "divps", "sqrtps", "maxps", "minps", "andps", "andnps", "orps", "xorps", "cmpeqps",
  "cmpltps", "cmpleps", "addpd", "subpd", "mulpd", "divpd", "sqrtpd", "maxpd", "minpd", "andpd", "andnpd", "orpd", "xorpd",
  "cmpeqpd", "cmpltpd", "cmplepd", "cvtdq2pd", "cvtdq2ps", "cvtpd2ps", "cvtps2pd", "cvttpd2dq", "cvttps2dq", "cvtps2dq",
  "cvtpd2dq", "movaps", "movups", "movapd", "movupd", "movdqa", "movdqu", "shufps", "shufpd", "unpcklps", "unpckhps",
  "unpcklpd", "unpckhpd", "blendvpd", "blendvps", "blendps", "blendpd", "roundps", "roundpd", "movddup", "movshdup",
  "movsldup", "lddqu", "haddps", "haddpd", "hsubps", "hsubpd", "addsubps", "addsubpd", "ptest", "movntdq", "dpps"} \cup AvxOnly

IsV(m) == Len(m) > 1 /\ SubSeq(m, 1, 1) = "v"
Strip(m) == SubSeq(m, 2, Len(m))

Feature(m, cls) ==
  CASE cls = "gp" ->
         (CASE m \in {"ldmxcsr", "stmxcsr"} -> "SSE2"        \* SSE; the sse target's baseline is SSE2
            [] m \in {"vldmxcsr", "vstmxcsr", "vzeroupper", "vzeroall"} -> "AVX"
            [] m = "emms" -> "MMX"
            [] OTHER -> "BASE")
    [] cls = "mm" ->
         (CASE m \in MmxBase -> "MMX" [] m \in MmxExt -> "MMXEXT" [] m \in MmxSse2 -> "SSE2"
            [] m \in MmxSsse3 -> "SSSE3" [] OTHER -> "UNKNOWN")
    [] cls = "xmm" /\ ~IsV(m) ->
         (CASE m \in XmmSse2 -> "SSE2" [] m \in XmmSse3 -> "SSE3" [] m \in XmmSsse3 -> "SSSE3"
            [] m \in XmmSse41 -> "SSE41" [] m \in XmmSse42 -> "SSE42" [] OTHER -> "UNKNOWN")
    [] cls = "xmm" /\ IsV(m) ->
         (LET b == Strip(m) IN
          CASE b \in Avx2Only -> "AVX2" [] b \in LegacyXmm \cup AvxOnly -> "AVX" [] OTHER -> "UNKNOWN")
    [] cls = "ymm" ->
         (IF ~IsV(m) THEN "UNKNOWN" ELSE LET b == Strip(m) IN
          CASE b \in Avx256 -> "AVX" [] b \in Avx2Only \cup LegacyXmm -> "AVX2" [] OTHER -> "UNKNOWN")
    [] OTHER -> "UNKNOWN"

\* ----- target flags (orc/orctarget.h): bit position -> feature
SseBits == [b0 |-> "SSE2", b1 |-> "SSE3", b2 |-> "SSSE3", b3 |-> "SSE41", b4 |-> "SSE42", b10 |-> "AVX", b11 |-> "AVX2"]
MmxBits == [b0 |-> "MMX", b1 |-> "MMXEXT", b4 |-> "SSSE3", b5 |-> "SSE41", b6 |-> "SSE42"]
BitNo == [b0 |-> 0, b1 |-> 1, b2 |-> 2, b3 |-> 3, b4 |-> 4, b5 |-> 5, b6 |-> 6, b10 |-> 10, b11 |-> 11]
RECURSIVE P2(_)
P2(k) == IF k = 0 THEN 1 ELSE 2 * P2(k - 1)
HasBit(flags, k) == (flags \div P2(k)) % 2 = 1
Bits(target) == IF target = "mmx" THEN MmxBits ELSE SseBits
Grants(target, flags) ==
  {"BASE"} \cup { Bits(target)[b] : b \in { c \in DOMAIN Bits(target) : HasBit(flags, BitNo[c]) } }
AllowedInsn(target, flags, m, cls) == Feature(m, cls) \in Grants(target, flags)

\* ----- enumeration of the configurations
Targets == {"sse", "avx", "mmx"}
FlagChoices(t) ==
  CASE t = "sse" -> { 1 + 2 * a + 4 * b + 8 * c + 16 * d : a \in 0..1, b \in 0..1, c \in 0..1, d \in 0..1 }
    [] t = "avx" -> { 1024 + 2048 * a + s : a \in 0..1, s \in {1, 31} }
    [] t = "mmx" -> { 1 + 2 * a + 16 * b + 32 * c : a \in 0..1, b \in 0..1, c \in 0..1 }
VARIABLES target, flags
Init == target \in Targets /\ flags \in FlagChoices(target)
Next == UNCHANGED <<target, flags>>
Spec == Init /\ [][Next]_<<target, flags>>

\* the table is a function: no mnemonic sits in two feature sets of one register class
Disjoint(sets) == \A i, j \in 1..Len(sets) : i # j => sets[i] \cap sets[j] = {}
TableIsFunction == /\ Disjoint(<<MmxBase, MmxExt, MmxSse2, MmxSsse3>>)
                   /\ Disjoint(<<XmmSse2, XmmSse3, XmmSsse3, XmmSse41, XmmSse42>>)
                   /\ Avx2Only \cap AvxOnly = {} /\ Avx2Only \cap LegacyXmm = {} /\ AvxOnly \cap LegacyXmm = {}
\* more flags never take an instruction away
Monotone == \A f2 \in FlagChoices(target) :
              (\A k \in 0..11 : HasBit(flags, k) => HasBit(f2, k)) => Grants(target, flags) \subseteq Grants(target, f2)
DumpInv == PrintT("CFG " \o ToJson([target |-> target, flags |-> flags, grants |-> Grants(target, flags)]))
=============================================================================
