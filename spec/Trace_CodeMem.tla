--------------------------- MODULE Trace_CodeMem ---------------------------
(***************************************************************************)
(* Trace validation of executions of the real allocator (orccodemem.c)     *)
(* against the property-level specification CodeMemAbs (C09; also used by  *)
(* C08 and C16 for their allocator events).                                *)
(*                                                                         *)
(* Events (ndjson, one per line, field e):                                 *)
(*   Reset                       a new process starts (fresh allocator)    *)
(*   Op   {op:"A"|"F", h, size}  harness: about to allocate / free h       *)
(*   NewRegion {r, rsize}        hook, under the global mutex              *)
(*   Alloc {size,asize,r,off,csize,nreg}   hook, under the mutex           *)
(*   AllocFail {size,asize,nreg}           hook, under the mutex           *)
(*   Free {r,off,csize}                    hook, under the mutex           *)
(*   Obs  {live:[[h,r,off,size]..], walk:[[[off,size,used]..]..], ok, nreg}*)
(*        harness: state seen through the public OrcCode fields and the    *)
(*        read-only walker after the operation; ok = bytes of every live   *)
(*        object intact and identical through the write and exec mappings  *)
(* Every event carries t (thread).  Hook events are ordered by the mutex.  *)
(***************************************************************************)
EXTENDS Naturals, Sequences, FiniteSets, TLC, Json, IOUtils

TraceLog == ndJsonDeserialize(IOEnv.TRACE)
RSize == atoi(IOEnv.RSIZE)
Slack == 64      \* a request of `size` certainly fits a gap of size+Slack

THandles == { TraceLog[i].h : i \in { j \in 1..Len(TraceLog) : TraceLog[j].e = "Op" } }
Threads  == { TraceLog[i].t : i \in 1..Len(TraceLog) }

VARIABLES nreg, live, pend, l

INSTANCE CodeMemAbs WITH Handles <- THandles, MaxRegions <- 100000, Sizes <- {}

tvars == <<nreg, live, pend, l>>

Idle == [op |-> "-", h |-> 0, size |-> 0, fresh |-> FALSE]

GapBelow(n, size) == \E r \in 1..n : HasGap(r, size)

TInit == /\ AInit
         /\ pend = [t \in Threads |-> Idle]
         /\ l = 1

Ev == TraceLog[l]
IsEvent(name) == l <= Len(TraceLog) /\ Ev.e = name /\ l' = l + 1

TReset == /\ IsEvent("Reset")
          /\ nreg' = 0
          /\ live' = [h \in THandles |-> None]
          /\ pend' = [t \in Threads |-> Idle]

TOp == /\ IsEvent("Op")
       /\ pend' = [pend EXCEPT ![Ev.t] = [op |-> Ev.op, h |-> Ev.h, size |-> Ev.size, fresh |-> FALSE]]
       /\ UNCHANGED <<nreg, live>>

\* a region is obtained only when the request certainly fits nowhere; the
\* request size is checked at the Alloc / AllocFail event of the same critical
\* section (a compile does not know its code size beforehand: size 0 in Op)
TNewRegion ==
  /\ IsEvent("NewRegion")
  /\ pend[Ev.t].op = "A"
  /\ ~pend[Ev.t].fresh
  /\ Ev.r = nreg
  /\ Ev.rsize = RSize
  /\ nreg' = nreg + 1
  /\ pend' = [pend EXCEPT ![Ev.t].fresh = TRUE]
  /\ UNCHANGED live

Needed(t, size) == pend[t].fresh => ~GapBelow(nreg - 1, size + Slack)

TAlloc ==
  /\ IsEvent("Alloc")
  /\ pend[Ev.t].op = "A"
  /\ pend[Ev.t].size \in {0, Ev.size}
  /\ Ev.csize >= Ev.size
  /\ Ev.nreg = nreg
  /\ Needed(Ev.t, Ev.size)
  /\ AllocIn(pend[Ev.t].h, Ev.csize, Ev.r + 1, Ev.off)
  /\ pend' = [pend EXCEPT ![Ev.t].fresh = FALSE]

TAllocFail ==
  /\ IsEvent("AllocFail")
  /\ pend[Ev.t].op = "A"
  /\ pend[Ev.t].size \in {0, Ev.size}
  /\ ~IsLive(pend[Ev.t].h)
  /\ ~GapBelow(IF pend[Ev.t].fresh THEN nreg - 1 ELSE nreg, Ev.size + Slack)
  /\ (pend[Ev.t].fresh => Ev.size + Slack > RSize)   \* only an oversize request strands a region
  /\ Ev.nreg = nreg
  /\ pend' = [pend EXCEPT ![Ev.t].fresh = FALSE]
  /\ UNCHANGED <<nreg, live>>

TFree ==
  /\ IsEvent("Free")
  /\ pend[Ev.t].op = "F"
  /\ LET h == pend[Ev.t].h IN
       /\ live[h] = [r |-> Ev.r + 1, off |-> Ev.off, size |-> Ev.csize]
       /\ Free(h)
  /\ UNCHANGED pend

----------------------------------------------------------------------------
(* what the harness sees must be what the specification says *)

ObsLive(o) == { o[i][1] : i \in 1..Len(o) }

ObsMatches(o) ==
  /\ \A i \in 1..Len(o) :
       LET h == o[i][1] IN
         /\ IsLive(h)
         /\ live[h].r = o[i][2] + 1
         /\ live[h].off = o[i][3]
         /\ o[i][4] <= live[h].size
  /\ \A h \in THandles : IsLive(h) => h \in ObsLive(o)

WalkTiling(w) ==
  \A r \in 1..Len(w) :
    /\ Len(w[r]) >= 1
    /\ w[r][1][1] = 0
    /\ \A i \in 1..Len(w[r]) :
         /\ w[r][i][2] >= 1
         /\ IF i < Len(w[r]) THEN w[r][i + 1][1] = w[r][i][1] + w[r][i][2]
                             ELSE w[r][i][1] + w[r][i][2] = RSize

WalkCoalesced(w) ==
  \A r \in 1..Len(w) : \A i \in 1..(Len(w[r]) - 1) : w[r][i][3] = 1 \/ w[r][i + 1][3] = 1

UsedOf(w) == UNION { { <<r, w[r][i][1], w[r][i][2]>> : i \in { j \in 1..Len(w[r]) : w[r][j][3] = 1 } }
                      : r \in 1..Len(w) }
LiveOf == { <<live[h].r, live[h].off, live[h].size>> : h \in { x \in THandles : IsLive(x) } }

TObs ==
  /\ IsEvent("Obs")
  /\ Ev.ok = 1
  /\ Ev.nreg = nreg
  /\ Len(Ev.walk) = nreg
  /\ ObsMatches(Ev.live)
  /\ WalkTiling(Ev.walk)
  /\ WalkCoalesced(Ev.walk)
  /\ UsedOf(Ev.walk) = LiveOf
  /\ pend' = [pend EXCEPT ![Ev.t] = Idle]
  /\ UNCHANGED <<nreg, live>>

\* events of other vocabularies (compiler exits, API projections ...) stutter;
\* Crash is in this vocabulary and has no action
Vocabulary == {"Reset", "Op", "NewRegion", "Alloc", "AllocFail", "Free", "Obs", "Crash"}
TSkip == /\ l <= Len(TraceLog) /\ Ev.e \notin Vocabulary
         /\ l' = l + 1 /\ UNCHANGED <<nreg, live, pend>>

TNext == TSkip \/ TReset \/ TOp \/ TNewRegion \/ TAlloc \/ TAllocFail \/ TFree \/ TObs

TSpec == TInit /\ [][TNext]_tvars

\* evaluated in every state of the implementation's run
TNoOverlap == NoOverlap
TTypeOK == TypeOK

Consumed == TLCGet("stats").diameter - 1
TraceAccepted ==
  IF Consumed = Len(TraceLog) THEN TRUE
  ELSE Print(<<"REJECTED_AT", Consumed + 1, "of", Len(TraceLog)>>, FALSE)
=============================================================================
