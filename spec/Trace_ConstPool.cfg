SPECIFICATION TSpec
INVARIANT InBounds
POSTCONDITION TraceAccepted
CHECK_DEADLOCK FALSE
