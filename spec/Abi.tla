-------------------------------- MODULE Abi --------------------------------
(***************************************************************************)
(* What a compiled Orc function may do to the machine state its caller     *)
(* relies on (C10), at the grain of the instructions that matter: push /    *)
(* pop, writes to general registers, stmxcsr / ldmxcsr and the moves that   *)
(* carry the saved MXCSR between executor slots and registers, MMX          *)
(* instructions and emms, ret.  Values are abstract:                        *)
(*   "orig"      what the caller had in that callee-saved register          *)
(*   "mxcaller"  the caller's MXCSR control bits                            *)
(*   "mxorc"     the caller's bits with flush-to-zero / denormals-are-zero  *)
(*   "junk"      anything else                                              *)
(* A function returns correctly when every callee-saved register holds      *)
(* "orig", the stack is balanced, MXCSR is "mxcaller" and the x87 / MMX     *)
(* state is empty (Preserved).  The actions are the instruction effects;    *)
(* MC_Abi explores every function the disciplined code generator can        *)
(* produce (any set of used callee-saved registers, float or not, MMX or    *)
(* not) and checks Preserved at return; Trace_Abi replays the instruction   *)
(* stream of real listings through the same actions.                        *)
(***************************************************************************)
EXTENDS Naturals, Sequences, FiniteSets, TLC

CONSTANTS CalleeSaved, Volatile, Slots
Regs == CalleeSaved \cup Volatile
MxVals == {"mxcaller", "mxorc"}

VARIABLES phase, reg, stack, mx, slot, x87
avars == <<phase, reg, stack, mx, slot, x87>>

AInit ==
  /\ phase = "running"
  /\ reg = [r \in Regs |-> IF r \in CalleeSaved THEN "orig" ELSE "junk"]
  /\ stack = <<>>
  /\ mx = "mxcaller"
  /\ slot = [o \in Slots |-> "junk"]
  /\ x87 = "empty"

Push(r) == /\ phase = "running" /\ stack' = Append(stack, reg[r])
           /\ UNCHANGED <<phase, reg, mx, slot, x87>>
Pop(r) == /\ phase = "running" /\ stack # <<>>
          /\ reg' = [reg EXCEPT ![r] = stack[Len(stack)]]
          /\ stack' = SubSeq(stack, 1, Len(stack) - 1)
          /\ UNCHANGED <<phase, mx, slot, x87>>
Write(r) == /\ phase = "running" /\ reg' = [reg EXCEPT ![r] = "junk"]
            /\ UNCHANGED <<phase, stack, mx, slot, x87>>
StMx(o) == /\ phase = "running" /\ slot' = [slot EXCEPT ![o] = mx]
           /\ UNCHANGED <<phase, reg, stack, mx, x87>>
LdMx(o) == /\ phase = "running" /\ mx' = (IF slot[o] \in MxVals THEN slot[o] ELSE "junk")
           /\ UNCHANGED <<phase, reg, stack, slot, x87>>
Load(r, o) == /\ phase = "running" /\ reg' = [reg EXCEPT ![r] = IF slot[o] \in MxVals THEN slot[o] ELSE "junk"]
              /\ UNCHANGED <<phase, stack, mx, slot, x87>>
Store(o, r) == /\ phase = "running" /\ slot' = [slot EXCEPT ![o] = IF reg[r] \in MxVals THEN reg[r] ELSE "junk"]
               /\ UNCHANGED <<phase, reg, stack, mx, x87>>
OrFtz(r) == /\ phase = "running" /\ reg' = [reg EXCEPT ![r] = IF @ \in MxVals THEN "mxorc" ELSE "junk"]
            /\ UNCHANGED <<phase, stack, mx, slot, x87>>
SlotWrite(o) == /\ phase = "running" /\ slot' = [slot EXCEPT ![o] = "junk"]
                /\ UNCHANGED <<phase, reg, stack, mx, x87>>
MmxOp == /\ phase = "running" /\ x87' = "mmx" /\ UNCHANGED <<phase, reg, stack, mx, slot>>
Emms == /\ phase = "running" /\ x87' = "empty" /\ UNCHANGED <<phase, reg, stack, mx, slot>>

Preserved == /\ \A r \in CalleeSaved : reg[r] = "orig"
             /\ stack = <<>>
             /\ mx = "mxcaller"
             /\ x87 = "empty"
\* ret: the return address must be on top (balanced stack)
Ret == /\ phase = "running" /\ phase' = "returned" /\ UNCHANGED <<reg, stack, mx, slot, x87>>

TypeOK == /\ phase \in {"running", "returned"} /\ mx \in MxVals \cup {"junk"} /\ x87 \in {"empty", "mmx"}
          /\ \A r \in Regs : reg[r] \in {"orig", "junk"} \cup MxVals
=============================================================================
