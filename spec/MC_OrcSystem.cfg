SPECIFICATION Spec
CONSTANTS
  Progs = {1, 2}
  Codes = {1}
  Targets = {"avx", "sse", "null"}
  Modes = {"jit", "backup", "emulate"}
  MaxHist = 0
  DumpFile = ""
  E0KeepsCode = FALSE
INVARIANTS NoLeak NoUseAfterFree TakenOutlives FatalNoCode SuccessCallable OtherRunnable JitHasMemory
VIEW View
CHECK_DEADLOCK FALSE
