------------------------------- MODULE AbiGen -------------------------------
EXTENDS Abi
(* The disciplined generator: prologue pushes the used callee-saved         *)
(* registers, a float program saves MXCSR to slot A, keeps a copy in slot   *)
(* B, sets FTZ/DAZ; the body writes volatile and used registers only; the   *)
(* epilogue runs emms for MMX code, reloads MXCSR from the copy, pops in    *)
(* reverse order.  RestoreSlot names the slot the epilogue reloads MXCSR    *)
(* from: "copy" is the design; "working" is the deviation the code had      *)
(* (the slot that by then holds the modified value), kept to show that the  *)
(* invariant tells them apart.                                              *)
(***************************************************************************)
CONSTANTS Order,          \* the order in which callee-saved registers are pushed (a sequence)
          SlotA, SlotB, Tmp, RestoreSlot
VARIABLES used, isFloat, isMmx, pc, k, bodyLeft
gvars == <<used, isFloat, isMmx, pc, k, bodyLeft>>
UsedSeq == SelectSeq(Order, LAMBDA r : r \in used)

GInit == /\ AInit
         /\ used \in SUBSET CalleeSaved /\ isFloat \in BOOLEAN /\ isMmx \in BOOLEAN
         /\ pc = "push" /\ k = 1 /\ bodyLeft = 2
Step(a, nextpc) == a /\ pc' = nextpc
GNext ==
  \/ /\ pc = "push" /\ k <= Len(UsedSeq) /\ Push(UsedSeq[k]) /\ k' = k + 1 /\ UNCHANGED <<used, isFloat, isMmx, pc, bodyLeft>>
  \/ /\ pc = "push" /\ k > Len(UsedSeq) /\ UNCHANGED avars /\ pc' = (IF isFloat THEN "mx1" ELSE "body") /\ UNCHANGED <<used, isFloat, isMmx, k, bodyLeft>>
  \/ /\ pc = "mx1" /\ StMx(SlotA) /\ pc' = "mx2" /\ UNCHANGED <<used, isFloat, isMmx, k, bodyLeft>>
  \/ /\ pc = "mx2" /\ Load(Tmp, SlotA) /\ pc' = "mx3" /\ UNCHANGED <<used, isFloat, isMmx, k, bodyLeft>>
  \/ /\ pc = "mx3" /\ Store(SlotB, Tmp) /\ pc' = "mx4" /\ UNCHANGED <<used, isFloat, isMmx, k, bodyLeft>>
  \/ /\ pc = "mx4" /\ OrFtz(Tmp) /\ pc' = "mx5" /\ UNCHANGED <<used, isFloat, isMmx, k, bodyLeft>>
  \/ /\ pc = "mx5" /\ Store(SlotA, Tmp) /\ pc' = "mx6" /\ UNCHANGED <<used, isFloat, isMmx, k, bodyLeft>>
  \/ /\ pc = "mx6" /\ LdMx(SlotA) /\ pc' = "body" /\ UNCHANGED <<used, isFloat, isMmx, k, bodyLeft>>
  \/ /\ pc = "body" /\ bodyLeft > 0
     /\ \/ \E r \in Volatile \cup used : Write(r)
        \/ isMmx /\ MmxOp
     /\ bodyLeft' = bodyLeft - 1 /\ UNCHANGED <<used, isFloat, isMmx, pc, k>>
  \/ /\ pc = "body" /\ UNCHANGED avars /\ pc' = (IF isMmx THEN "emms" ELSE IF isFloat THEN "mxr" ELSE "pop")
     /\ k' = Len(UsedSeq) /\ UNCHANGED <<used, isFloat, isMmx, bodyLeft>>
  \/ /\ pc = "emms" /\ Emms /\ pc' = (IF isFloat THEN "mxr" ELSE "pop") /\ UNCHANGED <<used, isFloat, isMmx, k, bodyLeft>>
  \/ /\ pc = "mxr" /\ LdMx(IF RestoreSlot = "copy" THEN SlotB ELSE SlotA) /\ pc' = "pop" /\ UNCHANGED <<used, isFloat, isMmx, k, bodyLeft>>
  \/ /\ pc = "pop" /\ k >= 1 /\ Pop(UsedSeq[k]) /\ k' = k - 1 /\ UNCHANGED <<used, isFloat, isMmx, pc, bodyLeft>>
  \/ /\ pc = "pop" /\ k = 0 /\ Ret /\ pc' = "done" /\ UNCHANGED <<used, isFloat, isMmx, k, bodyLeft>>
GSpec == GInit /\ [][GNext]_<<avars, gvars>>

ReturnsPreserved == phase = "returned" => Preserved
=============================================================================
