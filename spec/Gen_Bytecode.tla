---------------------------- MODULE Gen_Bytecode ----------------------------
(***************************************************************************)
(* Programs for the bytecode round trip (C13): built step by step the way   *)
(* an application uses the construction API, with the boundary values of     *)
(* the integer encoding (254, 255, 256, 65534), every parameter class,       *)
(* 32- and 64-bit constants with the sign bits set, 2-D settings, long       *)
(* names, x2/x4 flags.  TLC checks RoundTrip and Stable of Bytecode.tla in   *)
(* every state and (simulation) prints programs for replay.                  *)
(***************************************************************************)
EXTENDS Bytecode

CONSTANTS MaxSteps, DumpAt

VARIABLES P, steps
gvars == <<P, steps>>

Boundary == {1, 254, 255, 256, 65534}
Sizes == {1, 2, 4, 8}
Bytes4 == { <<1, 0, 0, 0>>, <<255, 255, 255, 255>>, <<0, 0, 0, 128>>, <<254, 255, 0, 1>>,
            <<2, 0, 0, 0>>, <<0, 0, 32, 64>>, <<0, 0, 0, 63>>, <<0, 0, 122, 68>> }   \* 2, 2.5f, 0.5f, 1000.0f
Bytes8 == { <<1, 0, 0, 0, 0, 0, 0, 0>>, <<0, 0, 0, 128, 0, 0, 0, 0>>, <<239, 205, 171, 137, 103, 69, 35, 1>>,
            <<0, 255, 0, 255, 0, 255, 0, 255>>, <<154, 153, 153, 153, 153, 153, 185, 63>> }
PTypes == {"int", "float", "int64", "double"}
NameOf(n) == [i \in 1..n |-> 97 + (i % 26)]

Init == P = [Empty EXCEPT !.name = NameOf(3)] /\ steps = 0
Step == steps < MaxSteps /\ steps' = steps + 1

SetCN == Step /\ P.cn = 0 /\ \E v \in Boundary : P' = [P EXCEPT !.cn = v]
SetNMul == Step /\ P.nmul = 0 /\ \E v \in Boundary : P' = [P EXCEPT !.nmul = v]
SetNMin == Step /\ P.nmin = 0 /\ \E v \in Boundary : P' = [P EXCEPT !.nmin = v]
SetNMax == Step /\ P.nmax = 0 /\ \E v \in Boundary : P' = [P EXCEPT !.nmax = v]
Set2D == Step /\ ~P.twod /\ \E v \in Boundary \cup {0} : P' = [P EXCEPT !.twod = TRUE, !.cm = v]
SetName == Step /\ Len(P.name) = 3 /\ \E n \in {1, 254, 255, 256} : P' = [P EXCEPT !.name = NameOf(n)]
AddD == Step /\ Len(P.d) < 4 /\ \E z \in Sizes, al \in {0, 1} :
          P' = [P EXCEPT !.d = Append(@, [size |-> z, align |-> IF al = 0 THEN z ELSE 16])]
AddS == Step /\ Len(P.s) < 8 /\ \E z \in Sizes, al \in {0, 1} :
          P' = [P EXCEPT !.s = Append(@, [size |-> z, align |-> IF al = 0 THEN z ELSE 16])]
AddA == Step /\ Len(P.a) < 4 /\ \E z \in {2, 4} : P' = [P EXCEPT !.a = Append(@, z)]
AddC == Step /\ Len(P.c) < 8 /\
          \/ \E z \in {1, 2, 4}, b \in Bytes4 : P' = [P EXCEPT !.c = Append(@, [size |-> z, bytes |-> b])]
          \/ \E b \in Bytes8 : P' = [P EXCEPT !.c = Append(@, [size |-> 8, bytes |-> b])]
AddP == Step /\ Len(P.p) < 8 /\ \E pt \in PTypes :
          P' = [P EXCEPT !.p = Append(@, [size |-> IF pt \in {"int64", "double"} THEN 8 ELSE 4, ptype |-> pt])]
AddT == Step /\ Len(P.t) < 16 /\ \E z \in Sizes : P' = [P EXCEPT !.t = Append(@, z)]

\* variable slots as the API numbers them
D(k) == k - 1   S(k) == 3 + k   A(k) == 11 + k   C(k) == 15 + k   Pm(k) == 23 + k   T(k) == 31 + k

\* an instruction: any opcode of the table whose operand sizes fit variables that exist
\* (first variable of the right size in a class the operand may use)
Insn(op, fl, args) == [flags |-> fl, op |-> OpIdx(op), args |-> args]
AddI ==
  /\ Step /\ Len(P.insns) < 8
  /\ \/ (Len(P.d) >= 1 /\ Len(P.s) >= 1 /\ \E fl \in {0, 1, 2} :
           P' = [P EXCEPT !.insns = Append(@, Insn("copyw", fl, <<D(1), S(1)>>))])
     \/ (Len(P.d) >= 1 /\ Len(P.s) >= 2 /\ \E fl \in {0, 1, 2} :
           P' = [P EXCEPT !.insns = Append(@, Insn("addw", fl, <<D(1), S(1), S(2)>>))])
     \/ (Len(P.d) >= 1 /\ Len(P.s) >= 1 /\ Len(P.c) >= 1 /\
           P' = [P EXCEPT !.insns = Append(@, Insn("shlw", 0, <<D(1), S(1), C(Len(P.c))>>))])
     \/ (Len(P.d) >= 2 /\ Len(P.s) >= 1 /\
           P' = [P EXCEPT !.insns = Append(@, Insn("splitlw", 0, <<D(1), D(2), S(1)>>))])
     \/ (Len(P.d) >= 2 /\ Len(P.c) >= 1 /\ \E k \in 1..Len(P.c) :
           \E op \in {"splitlw", "splitwb", "splitql"} :
           P' = [P EXCEPT !.insns = Append(@, Insn(op, 0, <<D(1), D(2), C(k)>>))])
     \/ (Len(P.d) >= 1 /\ Len(P.s) >= 1 /\ Len(P.c) >= 1 /\ \E k \in 1..Len(P.c), op \in {"addl", "mulf", "addw", "andb"} :
           P' = [P EXCEPT !.insns = Append(@, Insn(op, 0, <<D(1), S(1), C(k)>>))])
     \/ (Len(P.a) >= 1 /\ Len(P.s) >= 1 /\
           P' = [P EXCEPT !.insns = Append(@, Insn("accw", 0, <<A(1), S(1)>>))])
     \/ (Len(P.t) >= 1 /\ Len(P.p) >= 1 /\
           P' = [P EXCEPT !.insns = Append(@, Insn("loadpl", 0, <<T(1), Pm(Len(P.p))>>))])
     \/ (Len(P.t) >= 2 /\ \E fl \in {0, 2} :
           P' = [P EXCEPT !.insns = Append(@, Insn("mulhsw", fl, <<T(2), T(1), T(Len(P.t))>>))])
     \/ (Len(P.d) >= 1 /\ Len(P.t) >= 1 /\ Len(P.c) >= 1 /\
           P' = [P EXCEPT !.insns = Append(@, Insn("addq", 0, <<D(1), T(1), C(Len(P.c))>>))])

Next == SetCN \/ SetNMul \/ SetNMin \/ SetNMax \/ Set2D \/ SetName \/ AddD \/ AddS \/ AddA \/ AddC \/ AddP
        \/ AddT \/ AddI
Spec == Init /\ [][Next]_gvars

RoundTripInv == RoundTrip(P)
StableInv == Stable(P)
DumpInv == steps # DumpAt \/ PrintT("PROG " \o ToJson(P))
=============================================================================
