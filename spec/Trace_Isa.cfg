SPECIFICATION TSpec
POSTCONDITION TraceAccepted
CHECK_DEADLOCK FALSE
