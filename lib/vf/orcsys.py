"""Behaviour generation from spec/OrcSystem.tla and replay through harness/h_api."""
import os, json
from .common import *
from . import trace as T


def write_cfg(ctx, name, progs, codes, targets, modes, maxhist=0, dump=False, sim=False, inv=True,
              e0keeps=False):
    fn = os.path.join(ctx.work, name + ".cfg")
    q = lambda xs: ", ".join('"%s"' % x for x in xs)
    with open(fn, "w") as f:
        f.write("SPECIFICATION Spec\nCONSTANTS\n  Progs = {%s}\n  Codes = {%s}\n  Targets = {%s}\n"
                "  Modes = {%s}\n  MaxHist = %d\n  DumpFile = \"%s\"\n  E0KeepsCode = %s\n" % (
                    ", ".join(map(str, range(1, progs + 1))), ", ".join(map(str, range(1, codes + 1))),
                    q(targets), q(modes), maxhist, "x" if dump else "", "TRUE" if e0keeps else "FALSE"))
        f.write("CHECK_DEADLOCK FALSE\n")
        if not sim:
            f.write("VIEW View\n")
        if inv:
            f.write("INVARIANTS NoLeak NoUseAfterFree TakenOutlives FatalNoCode SuccessCallable "
                    "OtherRunnable JitHasMemory\n")
        if dump:
            f.write("ACTION_CONSTRAINT RecEdge\n")
        if sim:
            f.write("INVARIANT SimDump\n")
    return fn


def parse_lines(out, tag):
    res = []
    for l in out.splitlines():
        if l.startswith('"' + tag + " "):
            s = json.loads(l)
            _, mode, empty, js = s.split(" ", 3)
            res.append((mode, empty == "1", json.loads(js)))
    return res


def render(mode, ops):
    return mode + "|" + ";".join("%s %d %s" % (o["op"], o["p"], o["a"]) for o in ops)


def maximal(behs):
    """drop behaviours that are proper prefixes of another one (same mode)"""
    keys = set((m, tuple((o["op"], o["p"], str(o["a"])) for o in ops)) for m, e, ops in behs)
    pref = set()
    for m, k in keys:
        for i in range(1, len(k)):
            pref.add((m, k[:i]))
    out, seen = [], set()
    for m, e, ops in behs:
        k = (m, tuple((o["op"], o["p"], str(o["a"])) for o in ops))
        if k in pref or k in seen:
            continue
        seen.add(k)
        out.append((m, e, ops))
    return out


def gen_edges(ctx, progs=1, codes=1, targets=("avx", "sse", "null"), modes=("jit", "backup", "emulate")):
    cfg = write_cfg(ctx, "OS_dump", progs, codes, targets, modes, dump=True, inv=False)
    res = tlc("OrcSystem", cfg, workers=1, timeout=1200, heap="6g")
    tlc_ok(res, "OrcSystem edge dump")
    return parse_lines(res["out"], "EDGE"), res


def gen_sim(ctx, n, depth, progs=2, codes=2, targets=("avx", "sse", "null"),
            modes=("jit", "backup", "emulate"), seed=1):
    cfg = write_cfg(ctx, "OS_sim", progs, codes, targets, modes, maxhist=depth, sim=True, inv=True)
    res = tlc("OrcSystem", cfg, workers=1, timeout=1200, heap="4g", simulate=n, depth=depth + 1, seed=seed)
    tlc_ok(res, "OrcSystem simulation")
    return parse_lines(res["out"], "BEH"), res


def replay(ctx, variant, lines, label, env=None, shards=None, env_of_shard=None):
    """run behaviours through h_api in parallel shards; returns list of trace files"""
    binary = build_harness("h_api", variant)
    def one(a):
        i, ls = a
        bf = os.path.join(ctx.work, "%s_beh_%d.txt" % (label, i))
        tf = os.path.join(ctx.work, "%s_trace_%d.ndjson" % (label, i))
        open(bf, "w").write("\n".join(ls) + "\n")
        if os.path.exists(tf):
            os.unlink(tf)
        e = {"ORC_VERIF_TRACE": tf, "ASAN_OPTIONS": "detect_leaks=1:abort_on_error=0:exitcode=99",
             "LSAN_OPTIONS": "print_suppressions=0"}
        if env:
            e.update(env)
        if env_of_shard:
            e.update(env_of_shard(i))
        if e.get("ORC_DEBUG", "0") not in ("", "0"):
            # the debug log is not an observable of any check: drop it
            rc, out = sh("%s run %s 2>/dev/null" % (binary, bf), timeout=2400, env=e)
        else:
            rc, out = sh([binary, "run", bf], timeout=2400, env=e)
        if rc not in (0, 3):
            raise MachineryError("h_api failed rc=%d: %s" % (rc, out[-2000:]))
        open(tf + ".stderr", "w").write(out)
        return tf
    return parallel(one, list(enumerate(chunks(lines, shards or NCPU))))


def validate(ctx, tf, focus, label):
    rows = read_ndjson(tf)
    if not rows:
        raise MachineryError("empty trace " + tf)
    env = {"F_" + f: "1" for f in focus}
    r = T.validate("Trace_OrcSystem", "Trace_OrcSystem.cfg", tf, env=env, timeout=1800)
    import re as _re
    for m in set(_re.sub(r", \d+>>$", ">>", l) for l in r["res"]["out"].splitlines() if l.startswith('<<"DRIFT"')):
        if ("spec-drift " + m) not in ctx.infos:
            ctx.info("spec-drift " + m)
    nseg = sum(1 for x in rows if x.get("e") == "Reset")
    ctx.cov["trace_states"] = ctx.cov.get("trace_states", 0) + r["res"]["distinct"]
    if r["accepted"]:
        ctx.cov["traces_validated_against_impl"] += nseg
        ctx.cov["events_validated"] = ctx.cov.get("events_validated", 0) + len(rows)
        return []
    # isolate failing segments one at a time: validate the remainder after each rejection
    fails = []
    cur = rows
    guard = 0
    while True:
        guard += 1
        s, e = T.segment_of(cur, r["rejected_at"])
        seg = cur[s:e]
        bad = cur[min(r["rejected_at"] - 1, len(cur) - 1)]
        fails.append((seg, bad, r["why"]))
        done = sum(1 for x in cur[:s] if x.get("e") == "Reset")
        ctx.cov["traces_validated_against_impl"] += done
        cur = cur[e:]
        if not cur or guard > 12:
            break
        rest = os.path.join(ctx.work, "%s_rest_%d.ndjson" % (label, guard))
        write_ndjson(rest, cur)
        r = T.validate("Trace_OrcSystem", "Trace_OrcSystem.cfg", rest, env=env, timeout=1800)
        if r["accepted"]:
            ctx.cov["traces_validated_against_impl"] += sum(1 for x in cur if x.get("e") == "Reset")
            break
    return fails


def seg_signature(seg):
    """the behaviour of a trace segment in the spec's vocabulary: mode + op list"""
    mode = seg[0].get("mode", "?") if seg else "?"
    ops = ["%s %s %s" % (x["op"], x["p"], x["a"]) for x in seg if x.get("e") == "Api"]
    return mode, ops
