"""Rendering of OrcText line kinds to concrete .orc text (with seeded formatting)."""
import random

CAPS = dict(d=4, s=8, a=4, c=8, p=8, t=16)


class Renderer:
    def __init__(self, rng):
        self.rng = rng
        self.reset()
        self.nf = 0

    def reset(self):
        self.n = dict(d=0, s=0, a=0, c=0, p=0, t=0)

    def name(self, cls):
        self.n[cls] += 1
        return "%s%d" % (cls, self.n[cls])

    def one(self, k):
        r = self.rng
        if k == "blank": return r.choice(["", " ", "\t", "  \t "])
        if k == "comment": return "# a comment, with commas"
        if k == "comment_indented": return "   # indented comment"
        if k == "function":
            self.reset(); self.nf += 1
            return ".function fn%d" % self.nf
        if k == "function0":
            self.reset(); return ".function"
        if k == "init": return ".init my_init"
        if k == "init0": return ".init"
        if k == "backup": return ".backup my_backup"
        if k == "backup0": return ".backup"
        if k == "flags2d": return ".flags 2d"
        if k == "n5": return ".n 5"
        if k == "nmult": return ".n mult 4"
        if k == "nmult0": return ".n mult"
        if k == "m3": return ".m 3"
        if k == "m0": return ".m"
        if k == "source": return ".source 2 %s" % self.name("s")
        if k == "sourcealign": return ".source 2 %s align 16" % self.name("s")
        if k == "source0": return ".source 2"
        if k == "dest": return ".dest 2 %s" % self.name("d")
        if k == "dest0": return ".dest"
        if k == "acc": return ".accumulator 2 %s" % self.name("a")
        if k == "acc0": return ".accumulator 2"
        if k == "const":
            nm = self.name("c"); return ".const 2 %s %d" % (nm, 1000 + self.n["c"])
        if k == "const0": return ".const 2 cx"
        if k == "temp": return ".temp 2 %s" % self.name("t")
        if k == "temp0": return ".temp"
        if k == "param": return ".param 2 %s" % self.name("p")
        if k == "param0": return ".param 2"
        if k == "longparam": return ".longparam 8 %s" % self.name("p")
        if k == "floatparam": return ".floatparam 4 %s" % self.name("p")
        if k == "doubleparam": return ".doubleparam 8 %s" % self.name("p")
        if k == "unknowndir": return ".bogus 1 2"
        if k == "op_ok": return "addw d1, s1, s1"
        if k == "op_x2": return "x2 addb d1, s1, s1"
        if k == "op_x4": return "x4 addb d1, s1, s1"
        if k == "op_lit": return "addw d1, s1, 3"
        if k == "op_unknown": return "frobw d1, s1, s1"
        if k == "op_fewargs": return "addw d1, s1"
        if k == "op_manyargs": return "addw d1, s1, s1, s1"
        if k == "op_badoperand": return "addw d1, s1, nosuchvar"
        if k == "op_badlit": return "addw d1, s1, 1x"
        if k == "x2alone": return "x2"
        if k == "tokens17": return "addw " + ", ".join("s1" for _ in range(17))
        raise ValueError(k)

    def lines(self, kinds):
        out = []
        for k in kinds:
            if k == "ops40": out += [self.one("op_ok") for _ in range(40)]
            elif k == "temps6": out += [self.one("temp") for _ in range(6)]
            elif k == "sources3": out += [self.one("source") for _ in range(3)]
            else: out.append(self.one(k))
        return out

    def fmt(self, line):
        """formatting the parser must be indifferent to: leading blanks, runs of blanks/tabs
        between tokens, blanks after a comma (a blank *before* a comma is an empty token for
        this tokenizer and is not used), trailing blanks, trailing comments"""
        r = self.rng
        if line.strip() and not line.lstrip().startswith("#"):
            out = ""
            for ch in line:
                if ch == " ":
                    out += r.choice([" ", "  ", "\t", " \t"])
                elif ch == ",":
                    out += r.choice([",", ", ", ",\t"]).rstrip(" ") if False else ","
                else:
                    out += ch
            out = out.replace(", ", r.choice([", ", ",  ", ",\t", ","]))
            line = r.choice(["", " ", "\t"]) + out + r.choice(["", " ", "  # trailing comment", "\t"])
        return line

    def text(self, kinds, style=None):
        r = self.rng
        ls = [self.fmt(l) for l in self.lines(kinds)]
        style = style or r.choice(["lf", "crlf", "lf_nofinal", "crlf_nofinal", "cr_end"])
        eol = "\r\n" if style.startswith("crlf") else "\n"
        t = eol.join(ls)
        if style in ("lf", "crlf"):
            t += eol
        elif style == "cr_end":
            t += "\r"
        return t
