"""The sys opcode table as read from /repo/orc/orcopcodes-sys.c (names, flags, sizes)."""
import re, os
from .common import REPO


def load():
    ops = []
    src = open(os.path.join(REPO, "orc", "orcopcodes-sys.c")).read()
    for m in re.finditer(r'^\s*\{\s*"(\w+)",\s*([^,]+),\s*\{([^}]*)\},\s*\{([^}]*)\},\s*(\w+)\s*\}', src, re.M):
        name, flags, ds, ss, emu = m.groups()
        ds = [int(x) for x in ds.replace(" ", "").split(",") if x]
        ss = [int(x) for x in ss.replace(" ", "").split(",") if x]
        ops.append(dict(name=name, flags=flags.strip(), dest=ds, src=ss))
    return ops
