"""Shared machinery of /verif/bin/check: builds, TLC runs, traces, evidence."""
import json, os, re, shutil, subprocess, sys, time, hashlib, random

VERIF = os.path.dirname(os.path.dirname(os.path.dirname(os.path.abspath(__file__))))
REPO = os.environ.get("VERIF_REPO", "/repo")
BUILD = os.path.join(VERIF, "build")
SPEC = os.path.join(VERIF, "spec")
HARNESS = os.path.join(VERIF, "harness")
EVID = os.path.join(VERIF, "evidence")
TLAJAR = "/opt/veriftools/tla/tla2tools.jar:/opt/veriftools/tla/CommunityModules-deps.jar"
NCPU = os.cpu_count() or 4


class MachineryError(Exception):
    """our own tooling failed (not a verdict about orc)"""


def log(*a):
    print(*a, flush=True)


def sh(cmd, timeout=None, env=None, cwd=None, check=False, stdin=None):
    e = dict(os.environ)
    if env:
        e.update(env)
    try:
        p = subprocess.run(cmd, shell=isinstance(cmd, str), stdout=subprocess.PIPE,
                           stderr=subprocess.STDOUT, timeout=timeout, env=e, cwd=cwd,
                           input=stdin)
        out = p.stdout.decode("utf-8", "replace")
        rc = p.returncode
    except subprocess.TimeoutExpired as ex:
        out = (ex.stdout or b"").decode("utf-8", "replace")
        rc = 124
    if check and rc != 0:
        raise MachineryError("command failed rc=%s: %s\n%s" % (rc, cmd, out[-4000:]))
    return rc, out


# ----------------------------------------------------------------- builds

VARIANTS = {
    "hook": dict(cc="gcc", flags="-O1 -g -DORC_VERIF_HOOKS"),
    # memory-safety observers only: signed shifts/overflows in the instruction encoders are
    # not what any property is about (and are relied upon everywhere in the code base)
    "asan": dict(cc="gcc", flags="-O1 -g -DORC_VERIF_HOOKS -fsanitize=address,bounds,object-size,"
                                  "pointer-overflow,return,unreachable,vla-bound -fno-sanitize-recover=all "
                                  "-fno-omit-frame-pointer"),
    "tsan": dict(cc="clang", flags="-O1 -g -DORC_VERIF_HOOKS -fsanitize=thread"),
    "plain": dict(cc="gcc", flags="-O2 -g"),
    # the optimisation level of a release build, with the trace sink (termination checks of C05)
    "hooko2": dict(cc="gcc", flags="-O2 -g -DORC_VERIF_HOOKS"),
}


def ensure_cfg():
    """config.h for the direct build (normally made by bin/setup)"""
    cfg = os.path.join(BUILD, "cfg")
    h = os.path.join(cfg, "config.h")
    mb = os.path.join(REPO, "meson.build")
    if os.path.exists(h) and os.path.getmtime(h) >= os.path.getmtime(mb):
        return cfg
    os.makedirs(cfg, exist_ok=True)
    md = os.path.join(BUILD, "cfg_meson")
    shutil.rmtree(md, ignore_errors=True)
    rc, out = sh(["meson", "setup", md, REPO, "-Dgtk_doc=disabled", "-Dbenchmarks=disabled",
                  "-Dexamples=disabled"], timeout=300)
    src = os.path.join(md, "config.h")
    if rc != 0 or not os.path.exists(src):
        src = os.path.join(VERIF, "mk", "config.h.fallback")
        log("INFO meson setup failed, using mk/config.h.fallback")
    shutil.copy(src, h)
    shutil.rmtree(md, ignore_errors=True)
    return cfg


def build_lib(variant="hook"):
    """(re)build liborc.a + liborctest.a of a variant from /repo's working tree"""
    v = VARIANTS[variant]
    cfg = ensure_cfg()
    out = os.path.join(BUILD, variant)
    rc, o = sh(["make", "-s", "-j%d" % NCPU, "-f", os.path.join(VERIF, "mk", "orc.mk"),
                "REPO=" + REPO, "CFG=" + cfg, "OUT=" + out, "CC=" + v["cc"],
                "CFLAGS_V=" + v["flags"]], timeout=900)
    if rc != 0:
        raise MachineryError("building liborc (%s) failed:\n%s" % (variant, o[-6000:]))
    return out


def build_harness(name, variant="hook", extra_src=(), extra_flags="", out_name=None, libs="",
                  wrap=()):
    """compile harness/<name>.c against a library variant; returns the binary"""
    v = VARIANTS[variant]
    libdir = build_lib(variant)
    cfg = os.path.join(BUILD, "cfg")
    outb = os.path.join(BUILD, variant, out_name or name)
    srcs = [os.path.join(HARNESS, name + ".c")] + [os.path.join(HARNESS, s) for s in extra_src]
    import glob as _glob
    # harnesses inline code from the public headers (orconce.h): depend on them too
    deps = srcs + [os.path.join(libdir, "liborc.a"), os.path.join(libdir, "liborctest.a"),
                   os.path.join(HARNESS, "hcommon.h"), os.path.join(HARNESS, "hcgen.h"),
                   os.path.join(HARNESS, "hbuild.h")] + _glob.glob(os.path.join(REPO, "orc", "*.h"))
    if os.path.exists(outb) and all(os.path.getmtime(outb) >= os.path.getmtime(d)
                                    for d in deps if os.path.exists(d)):
        return outb
    wrapf = "".join(" -Wl,--wrap=%s" % w for w in wrap)
    cmd = ("%s %s -DHAVE_CONFIG_H -DORC_ENABLE_UNSTABLE_API -D_GNU_SOURCE -I%s -I%s -I%s %s "
           "-o %s %s %s/liborctest.a %s/liborc.a %s -lm -lpthread -ldl %s" %
           (v["cc"], v["flags"], REPO, cfg, HARNESS, extra_flags, outb, " ".join(srcs),
            libdir, libdir, wrapf, libs))
    rc, o = sh(cmd, timeout=600)
    if rc != 0:
        raise MachineryError("building harness %s failed:\n%s\n%s" % (name, cmd, o[-6000:]))
    return outb


# ----------------------------------------------------------------- TLC

_tlc_counter = [0]


def tlc(module, cfg, workers=4, timeout=600, env=None, coverage=False, extra=(), heap="4g",
        deadlock=True, simulate=None, depth=None, seed=None, metaname=None, dfs=False):
    """run TLC; returns dict(rc, out, generated, distinct, depth, coverage, violated, wall)"""
    _tlc_counter[0] += 1
    meta = os.path.join(BUILD, "tlc", "%s_%d_%d" % (metaname or module, os.getpid(), _tlc_counter[0]))
    shutil.rmtree(meta, ignore_errors=True)
    os.makedirs(meta, exist_ok=True)
    jopts = "-XX:+UseParallelGC -XX:ParallelGCThreads=2 -Xss192m -Xmx%s" % heap
    if dfs:
        jopts += " -Dtlc2.tool.queue.IStateQueue=StateDeque"
    cmd = ["java"] + jopts.split() + ["-cp", TLAJAR, "tlc2.TLC", "-workers", str(workers),
                                      "-metadir", meta, "-config", cfg]
    if coverage:
        cmd += ["-coverage", "1"]
    if not deadlock:
        cmd += ["-deadlock"]
    if simulate:
        cmd += ["-simulate", "num=%d" % simulate]
    if depth:
        cmd += ["-depth", str(depth)]
    if seed is not None:
        cmd += ["-seed", str(seed)]
    cmd += ["-noGenerateSpecTE"] + list(extra) + [module + ".tla"]
    t0 = time.time()
    rc, out = sh(cmd, timeout=timeout, env=env, cwd=SPEC)
    wall = time.time() - t0
    shutil.rmtree(meta, ignore_errors=True)
    res = dict(rc=rc, out=out, wall=wall, generated=0, distinct=0, depth=0, coverage={},
               violated=None, cmd=" ".join(cmd))
    m = re.findall(r"(\d+) states generated, (\d+) distinct states found", out)
    if m:
        res["generated"], res["distinct"] = int(m[-1][0]), int(m[-1][1])
    m = re.search(r"depth of the complete state graph search is (\d+)", out)
    if m:
        res["depth"] = int(m.group(1))
    m = re.search(r"Invariant (\S+) is violated", out)
    if m:
        res["violated"] = m.group(1)
    elif "is violated" in out or "Temporal properties were violated" in out:
        res["violated"] = "property"
    elif re.search(r"Error: Deadlock reached", out):
        res["violated"] = "deadlock"
    if coverage:
        # "<Action line 10, col 1 to line 20, col 30 of module M>: 12:34"
        for mm in re.finditer(r"^<(\w+) line \d+, col \d+ to line \d+, col \d+ of module (\w+)(?: \([\d ]+\))?>: (\d+):(\d+)",
                              out, re.M):
            k = mm.group(1)
            t, g = int(mm.group(3)), int(mm.group(4))
            a = res["coverage"].get(k, (0, 0))
            res["coverage"][k] = (a[0] + t, a[1] + g)
    return res


def tlc_ok(res, what):
    """TLC finished with no error; anything else is a machinery error unless violated"""
    if res["rc"] == 124:
        raise MachineryError("TLC timed out: %s" % what)
    if res["rc"] != 0 and res["violated"] is None:
        raise MachineryError("TLC failed (%s), rc=%d:\n%s" % (what, res["rc"], res["out"][-3000:]))
    return res["violated"] is None


# ----------------------------------------------------------------- known findings

def load_findings(prop):
    fn = os.path.join(VERIF, "known_findings.jsonl")
    known = []
    if os.path.exists(fn):
        for l in open(fn):
            l = l.strip()
            if not l or l.startswith("#"):
                continue
            d = json.loads(l)
            if d.get("property") == prop and d.get("status") == "known":
                known.append(d)
    return known


# ----------------------------------------------------------------- run context

class Ctx:
    def __init__(self, prop, tier, seed):
        self.prop, self.tier, self.seed = prop, tier, seed
        self.t0 = time.time()
        self.violations = []      # (what, replay path)
        self.known_hits = {}      # key -> count
        self.infos = []
        self.cov = dict(states=0, transitions=0, traces_validated_against_impl=0, samples=[],
                        evaluations=0, distinct_nontrivial=0, rule="", exhaustive=False)
        self.assumptions = []
        self.rng = random.Random(seed)
        self.work = os.path.join(BUILD, "work", prop + "_" + tier)
        shutil.rmtree(self.work, ignore_errors=True)
        os.makedirs(self.work, exist_ok=True)
        self.replay_dir = os.path.join(BUILD, "replay")
        os.makedirs(self.replay_dir, exist_ok=True)
        self.known = load_findings(prop)

    @property
    def quick(self):
        return self.tier == "quick"

    def add_model(self, res, name=None):
        self.cov["states"] += res["distinct"]
        self.cov["transitions"] += res["generated"]
        if name:
            self.cov.setdefault("models", {})[name] = dict(
                distinct=res["distinct"], generated=res["generated"], depth=res["depth"],
                wall_s=round(res["wall"], 1))
            if res["coverage"]:
                self.cov["models"][name]["actions"] = {k: list(v) for k, v in res["coverage"].items()}

    def sample(self, s):
        if len(self.cov["samples"]) < 8:
            self.cov["samples"].append(s)

    def info(self, msg):
        self.infos.append(msg)
        log("INFO " + msg)

    def save_replay(self, name, content):
        fn = os.path.join(self.replay_dir, "%s_%s_%s" % (self.prop, self.tier, name))
        if isinstance(content, (dict, list)):
            content = json.dumps(content, indent=1)
        with open(fn, "w") as f:
            f.write(content)
        return fn

    def violation(self, what, replay):
        self.violations.append((what, replay))
        log("VIOLATION property=%s replay=%s" % (self.prop, replay))
        log("  what: " + what)

    def known_finding(self, key, what):
        n = self.known_hits.get(key, 0)
        self.known_hits[key] = n + 1
        if n == 0:
            log("KNOWN-FINDING: property=%s %s (%s)" % (self.prop, what, key))

    def match_known(self, sig):
        """sig: dict; a finding matches when every key of its signature equals sig's"""
        for k in self.known:
            s = k.get("signature", {})
            if all(sig.get(a) == b for a, b in s.items()):
                return k
        return None

    def finish(self, level="model_checking"):
        wall = time.time() - self.t0
        cov = self.cov
        if not cov["samples"]:
            cov["samples"] = ["(no sample recorded)"]
        cov["known_findings_hit"] = self.known_hits
        cov["infos"] = self.infos[:20]
        ev = dict(property_id=self.prop, tier=self.tier, seed=self.seed, level=level,
                  coverage=cov, assumptions=self.assumptions, wall_s=round(wall, 2),
                  violations=len(self.violations))
        os.makedirs(EVID, exist_ok=True)
        with open(os.path.join(EVID, self.prop + ".json"), "w") as f:
            json.dump(ev, f, indent=1, default=str)
        log("%s %s: %s in %.1fs (states=%d transitions=%d impl-traces=%d)" % (
            self.prop, self.tier, "VIOLATED" if self.violations else "held", wall,
            cov["states"], cov["transitions"], cov["traces_validated_against_impl"]))
        return 1 if self.violations else 0


def read_ndjson(fn):
    out = []
    with open(fn) as f:
        for l in f:
            l = l.strip()
            if l:
                out.append(json.loads(l))
    return out


def write_ndjson(fn, rows):
    with open(fn, "w") as f:
        for r in rows:
            f.write(json.dumps(r, separators=(",", ":")) + "\n")


def chunks(lst, n):
    k = max(1, (len(lst) + n - 1) // n)
    return [lst[i:i + k] for i in range(0, len(lst), k)]


def parallel(fn, items, nproc=None):
    """run fn over items in a thread pool (work is in subprocesses)"""
    from concurrent.futures import ThreadPoolExecutor
    with ThreadPoolExecutor(max_workers=nproc or NCPU) as ex:
        return list(ex.map(fn, items))
