"""Trace validation helpers: run a Trace_*.tla spec over an ndjson trace."""
import os, re, json
from .common import tlc, MachineryError, log, read_ndjson, write_ndjson


def validate(module, cfg, trace_file, env=None, timeout=600, dfs=False, heap="3g"):
    """returns dict(accepted, rejected_at, res).  rejected_at is the 1-based index of the
    first trace line that could not be matched (None when accepted)."""
    e = {"TRACE": trace_file}
    if env:
        e.update(env)
    res = tlc(module, cfg, workers=1, timeout=timeout, env=e, dfs=dfs, heap=heap,
              metaname="tv_" + module)
    out = res["out"]
    if res["rc"] == 124:
        raise MachineryError("trace validation timed out: %s %s" % (module, trace_file))
    m = re.search(r"Invariant (\S+) is violated", out)
    if m:
        # the violating state is the one reached by consuming line n-1 (state 1 = initial)
        n = len(re.findall(r"^State \d+:", out, re.M))
        return dict(accepted=False, rejected_at=max(1, n - 1), res=res, why="invariant " + m.group(1))
    m = re.search(r'"REJECTED_AT",\s*(\d+)', out)
    if m:
        return dict(accepted=False, rejected_at=int(m.group(1)), res=res, why="unmatched event")
    if res["rc"] != 0:
        raise MachineryError("trace validation failed to run (%s):\n%s" % (module, out[-3000:]))
    return dict(accepted=True, rejected_at=None, res=res, why="")


def segment_of(rows, idx, sep="Reset"):
    """the Reset-delimited segment containing 1-based line idx: (start, end) 0-based half-open"""
    i = min(idx - 1, len(rows) - 1)
    s = i
    while s > 0 and rows[s].get("e") != sep:
        s -= 1
    e = i + 1
    while e < len(rows) and rows[e].get("e") != sep:
        e += 1
    return s, e
