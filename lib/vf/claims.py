"""What MANIFEST.json claims; bin/mkmanifest renders it."""
import subprocess

def _hooks():
    try:
        out = subprocess.run(["git", "-C", "/repo", "log", "--format=%H %s"], stdout=subprocess.PIPE).stdout.decode()
        return [l.split()[0] for l in out.splitlines() if " verif hook" in l]
    except Exception:
        return []

HOOK_COMMITS = _hooks()

NOT_YET = "check not built yet in this round (planned, see DESIGN.md section 6); not claimed until it runs clean"

CLAIMS = {
 "C09": dict(
    text="TLC exhaustively model-checks the first-fit chunk-list model of orccodemem.c (Tiling, Coalesced, "
         "UsedIsLive, RegionBound, refinement of the property-level CodeMemAbs); every edge of the reachable graph "
         "yields a behaviour that is replayed into the real allocator in a fresh process, and the traces recorded "
         "from the real code (hook events under the global mutex + observations through OrcCode fields and the "
         "read-only walker), plus long seeded histories of real compile/take_code/free with re-execution and "
         "re-hashing of every live function, are validated by TLC against CodeMemAbs.",
    design_ref="DESIGN.md sections 6 (design) and 12 (as built), C09",
    note="Bounded model (3-4 handles, 4-unit regions, <=3 regions); the allocator hooks report the allocator's own "
         "bookkeeping; byte-level integrity is observed by the harness through the public code/exec pointers.",
    technique="TLA+ spec + TLC model checking; behaviour replay into liborc; TLC trace validation against CodeMemAbs"),
 "C16": dict(
    text="TLC exhaustively model-checks OrcSystem (programs, owned and taken code objects, ghost heap of resources): "
         "NoLeak, NoUseAfterFree, TakenOutlives.  Every edge of the 1-program graph plus seeded simulations of the "
         "2-program model are replayed through the real API in fresh processes of the ASan/LSan build; the recorded "
         "Api traces are validated by TLC against Trace_OrcSystem (legal-sequence guards, code/chunk ownership after "
         "every call, walker count of used chunks = chunks the specification says are held, LeakSanitizer verdict, "
         "no crash).  TLC-generated cyclic behaviours are repeated thousands of times: heap and regions must not grow.",
    design_ref="DESIGN.md sections 6 (design) and 12 (as built), C16",
    note="Bounded model (2 programs, 1-2 taken codes, 4 program shapes); ASan/LSan and mallinfo2 are observers inside "
         "the replay; programs are one to twelve instructions long.",
    technique="TLA+ spec + TLC model checking; behaviour replay into liborc (ASan/LSan); TLC trace validation"),
 "C05": dict(
    text="(A) OrcSystem's CompileOutcome (exits E0..E9) with FatalNoCode / SuccessCallable / OtherRunnable model-checked "
         "over all histories, a negative variant refuted; behaviours ending in a compile replayed through the API and "
         "the traces validated with the class<=>post-state conjuncts.  (B) CompilerTables models how construction and "
         "the rewrite passes fill insns[100], vars[96]: InBounds holds with the capacity checks and is refuted without; "
         "the reachable boundary programs (below/at/above each capacity), every opcode in 4-6 operand forms, heavy "
         "opcode chains and variable-count overruns are compiled for all 8 registered targets in children of the "
         "ASan/bounds build under a watchdog; every Compile event is validated against Trace_Compile.  (C) ConstPool "
         "models the compiler's pool of rule constants (constants[20], two passes, register assignment): InBounds and "
         "RightValue hold with the capacity test and are refuted for the two pinned-code variants; programs asking for "
         "10..34 different pooled constants are compiled for mmx/sse/avx and the pool hook events of those compiles are "
         "validated against Trace_ConstPool (Cap = 20).",
    design_ref="DESIGN.md sections 6 (design) and 12 (as built), C05",
    note="Termination is a 20 s watchdog (normal compile: ~1 ms); non-native back ends are compiled, never executed; "
         "flag subsets other than the default are exercised by C11.",
    technique="TLA+ specs (OrcSystem, CompilerTables, ConstPool) + TLC; TLC-generated boundary programs compiled under "
              "sanitizers; TLC trace validation of compile events and constant-pool hook events"),
 "C17": dict(
    text="Determinism ghost `image` in Trace_OrcSystem: the first successful compile of a key (program, target) fixes "
         "the digests of machine code and listing; every later compile of that key must reproduce them, whatever the "
         "TLC-generated history in between (other compiles, frees, resets, take_code; edge cover of the 1-program "
         "OrcSystem graph over all 8 registered targets + seeded simulations of the 2-program model), in whatever "
         "process (placement varies), under ORC_DEBUG 0/3/6; run events must keep giving the right result.",
    design_ref="DESIGN.md sections 6 (design) and 12 (as built), C17",
    note="Digests are 64-bit FNV-1a of OrcCode.code[0..code_size) and of the listing text; programs are the four "
         "shapes of OrcSystem; flags are each target's defaults.",
    technique="TLA+ spec (OrcSystem) + TLC-generated histories replayed into liborc; TLC trace validation with a "
              "history-independence ghost variable"),
 "C06": dict(
    text="TLC model-checks ExecMem (the chain of attempts for a region request, every system call a step that can "
         "fail) over all fault plans with <= 2 failing calls during the init probe and the first compile: Balanced, "
         "SuccessIffMapped, NoWildSuccess, termination; two broken variants are refuted.  Every plan is replayed with "
         "a --wrap shim failing exactly those calls x ORC_CODE modes x backup function x rule/no-rule programs x "
         "attached/code-only executors, plus persistent class faults with a 30-round compile churn.  TLC validates the "
         "recorded traces: Trace_OrcSystem (right results on every path, backup called exactly once iff it is the "
         "entry point, native entry only with code memory, no crash or hang) and Trace_ExecMem (descriptors used only "
         "while open and closed before the call returns, failed attempts unmap what they mapped, no descriptor growth).",
    design_ref="DESIGN.md sections 6 (design) and 12 (as built), C06",
    note="Faults are injected at the libc boundary of the statically linked liborc; register exhaustion as a cause "
         "of fallback is covered by C05's boundary programs; the oracle for run results is the harness's own "
         "computation of the two program shapes.",
    technique="TLA+ spec (ExecMem) + TLC enumeration of fault plans; fault-injection replay; TLC trace validation "
              "against OrcSystem and ExecMem"),
 "C08": dict(
    text="TLC explores all interleavings of the PlusCal model Concurrency (orc_init's double-checked flag, the C11 "
         "once protocol, allocator sections under the global mutex; one label per shared access; vector-clock "
         "happens-before ghost): InitOnce, OnceOnce, NoRace, published value seen by every caller, no deadlock, "
         "termination under fairness; four weakened variants are each refuted.  Seeded multi-threaded runs of the "
         "real library (2..16 threads, pre-lock yields) are recorded and validated by TLC against Trace_Threads (lock "
         "discipline, init body once, each OrcOnce initialised once and its value seen by all, right results) and "
         "Trace_CodeMem (allocator events of all threads form a history CodeMemAbs allows).  Thorough tier adds a "
         "ThreadSanitizer run of the same driver as an auxiliary observer (Race events have no action).",
    design_ref="DESIGN.md sections 6 (design) and 12 (as built), C08",
    note="Exhaustive for 2 threads x 2 once objects and 3 threads x 1 (3 x 2 safety-only in the thorough tier); "
         "memory-order weakening cannot be observed in x86 executions and is decided by the model (TSan auxiliary).",
    technique="PlusCal/TLA+ spec + TLC (all interleavings, negative variants); TLC trace validation of "
              "multi-threaded executions ordered by in-lock sequence numbers"),
 "C19": dict(
    text="TLC checks TargetSelect for every CPU (2^10 feature sets x 3 XCR0 values) and every override value: the "
         "selection as the code computes it (registration order, last executable wins, flags from CPUID words, "
         "override rule) meets the property (no executable mark without CPU+OS support, detected = best supported, "
         "flags within the CPU, named supported target honoured, unknown name ignored, never an unrunnable default).  "
         "The states are presented to the real library through the hook ORC_VERIF_CPUID, one child each; the reported "
         "default target, executable marks, default flags and the result of compiling+running through the default "
         "path are validated by TLC against the property half of the specification.",
    design_ref="DESIGN.md sections 6 (design) and 12 (as built), C19",
    note="The hook replaces CPUID leaf 1 ecx/edx, leaf 7 ebx and XCR0 as seen by the standard-flags routine on the "
         "vendor path of this host (Intel); AMD-only extended leaves are not varied.  Known finding F9b (documented "
         "variable ORC_TARGET is ignored) is reported as KNOWN-FINDING.",
    technique="TLA+ spec + TLC over all CPU descriptions; replay of the states into liborc via a CPUID hook; TLC "
              "trace validation of the reports"),
 "C20": dict(
    text="TLC model-checks Registry (opcode sets with first-exact-match lookup, per-target rule sets with "
         "newest-satisfied-wins lookup) over all registration histories within bounds, names chosen to collide with "
         "built-ins (proper prefix, extension, identical): BuiltinNamesStable, BuiltinRulesStable, "
         "NewestSatisfiedWins, AppFound.  Seeded TLC simulations give histories that are replayed in fresh processes of "
         "the ASan build with self-identifying emulation functions and emitters; TLC validates the recorded events "
         "against Trace_Registry: Find/Rule of the specification = orc_opcode_find_by_name / orc_target_get_rule, the "
         "function and emitter that really ran for a program using each name, emulated and native results right.",
    design_ref="DESIGN.md sections 6 (design) and 12 (as built), C20",
    note="Target sse only; flags F1/F2 are SSE3 (present) and SSE4A (absent); at most 2 extra opcode sets and 3 extra "
         "rule sets per history (the rule-set table holds 10); application emitters delegate to built-in rules.",
    technique="TLA+ spec + TLC (all histories within bounds, seeded simulation for replay); replay into liborc; TLC "
              "trace validation"),
 "C13": dict(
    text="Bytecode.tla defines Encode/Decode between abstract programs and byte sequences; TLC checks RoundTrip and "
         "Stable for every program Gen_Bytecode builds within the step bound (boundary values 254/255/256/65534 in "
         "every integer field, all parameter classes, 32/64-bit constants with sign bits set, 2-D, long names, x2/x4, "
         "2-destination opcodes).  Seeded TLC simulations give longer programs that are built through the API, "
         "serialised, reconstructed and re-serialised by the library; TLC validates each BC event: reconstruction = "
         "Norm(original), identical bytes on the second serialisation, identical emulation results.  Agreement of "
         "the library's bytes with the specification's Encode is diagnostic only.",
    design_ref="DESIGN.md sections 6 (design) and 12 (as built), C13",
    note="Variable names/type names are outside the abstract program; instructions come from 8 templates; the "
         "100-instruction boundary is C05's.  orcbytecodes.h numbering is compared with the opcode table (prefix).",
    technique="TLA+ spec (encode/decode functions) + TLC over a bounded program grammar; replay of TLC-generated "
              "programs through liborc; TLC trace validation"),
 "C14": dict(
    text="OrcText.tla gives the parser as a total function Step(state, line kind) over 45 kinds of line (each "
         "directive with too few / right tokens, before and after the first .function, instructions with x2/x4, "
         "unknown opcode, wrong arity, unknown operand, good and bad literals, 17-token lines, block kinds reaching "
         "every capacity); TLC checks Total, InTables, LinesNumbered exhaustively to MaxLines and by simulation to "
         "60 kinds.  All files of 1-2 kinds, all/sampled files of 3 kinds, simulated long files and directed "
         "capacity files are rendered with seeded formatting and line endings and parsed by the real parser (ASan "
         "build); every returned program is compiled and freed, the error vector released.  TLC validates each Parse "
         "event against Trace_OrcText: the parse returned, every problem line has an error record with its number, "
         "program/variable/instruction counts are the specification's.  Arbitrary bytes are held to the weak "
         "contract only (returns, no sanitizer report, programs compile-or-fail and free).",
    design_ref="DESIGN.md sections 6 (design) and 12 (as built), C14",
    note="Formatting variations exclude a blank before a comma (an empty token for this tokenizer).  The weak "
         "contract on random bytes is an exploration inside the check, not a model-checked claim.",
    technique="TLA+ spec of the parser as a total step function + TLC; TLC-enumerated files replayed through "
              "orc_parse_code under ASan; TLC trace validation"),
 "C15": dict(
    text="Abstract programs from TLC (Gen_Bytecode: all variable classes, alignments, 32/64-bit constants, parameter "
         "classes, 2-D / fixed-size settings, x2/x4, multi-destination opcodes) are built through the API and, "
         "independently, printed as .orc text with seeded formatting, comments, blank lines, line endings and literal "
         "spellings, then parsed.  TLC validates each Parse event against Trace_TextApi: one program, bytecode of the "
         "parsed program = bytecode of the API twin, and Bytecode!Decode of those bytes = the abstract program the "
         "text was printed from (nothing dropped, reordered or resized).",
    design_ref="DESIGN.md sections 6 (design) and 12 (as built), C15",
    note="Equality is at bytecode level (variable names and type names are not part of it); programs with two "
         "declared constants of equal size and value are excluded (documented sharing); float literals are spelled "
         "from their bit patterns as integers.",
    technique="TLA+ specs (Bytecode + program generator) + TLC; independent printer and real parser; TLC trace "
              "validation of text-vs-API equality"),
 "C02": dict(
    text="OrcOps.tla (over OrcWord.tla: words as little-endian byte sequences) defines every integer opcode of the sys "
         "set from the opcode reference (doc table + opcodes.h expressions), not from the emulator; TLC checks "
         "algebraic sanity properties of these definitions over all 65536 byte pairs (Test_OrcOps).  One-opcode "
         "programs are emulated over operand vectors and TLC validates every element of every Run event against "
         "OrcOps (Trace_Ops): all 256 values / 65536 pairs of 8-bit operands, all 65536 values of 16-bit first "
         "operands, boundary-biased and seeded random operands for every size, the second operand as array, "
         "parameter and constant, n crossing the 16-element emulation chunks, misaligned arrays, x1/x2/x4 lane-wise, "
         "accumulators from zero, fence bytes next to the destination.",
    design_ref="DESIGN.md sections 6 (design) and 12 (as built), C02",
    note="Not all 2^32 pairs of 16-bit binary opcodes (second operand sampled); float opcodes are C18's; loads with "
         "index maps are validated at program level (C01/C03).  XML-table errata (andn, ldresnear shift, cmplt text) "
         "follow opcodes.h.",
    technique="TLA+ executable reference semantics (OrcOps) evaluated by TLC on traces of the emulator; TLC-checked "
              "sanity theorems of the reference"),
 "C03": dict(
    text="Footprint.tla defines, for a row of n elements and every opcode kind, the set of source elements a program "
         "is entitled to read (plain: 0..n-1; loadoff, loadupdb, loadupib, ldresnear, ldreslin: the index map of the "
         "opcode reference) and TLC enumerates every configuration up to MaxN with the hull of that set.  h_guard "
         "maps each array exactly as large as the specification entitles, flush against a PROT_NONE page before or "
         "after it, sources read-only, 2-D rows separated by canaried gaps, and runs avx, sse, mmx and emulation; "
         "TLC validates every Access event (Trace_Footprint): the hull is the specification's, no fault, canaries "
         "intact, destination equal to emulation on ordinary memory, index-map loads equal to the reference values.  "
         "X86Loop (C01) shows the head/body/tail partition stays inside 0..n-1 at design level.",
    design_ref="DESIGN.md sections 6 (design) and 12 (as built), C03",
    note="Guards are page-granular and one-sided per run (both sides are run); reads inside the entitled hull but "
         "outside the entitled set are not seen.",
    technique="TLA+ footprint specification enumerated by TLC into guarded-memory configurations run on the real "
              "backends; TLC trace validation of the recorded accesses"),
 "C04": dict(
    text="The plans of C02/C01 are run through the C generator: harness modes cgen:<v> write the text "
         "orc_program_compile_full(target c) returns for every program (v = complete executor function, bare backup "
         "body, bare NOEXEC body with the prototype's arguments as typed locals), gcc compiles it, and mode c:<v> "
         "calls the compiled functions on the same inputs; TLC validates every element of every event against the "
         "reference semantics (OrcOps/OrcProg via Trace_Ops/Trace_Prog).  A rejected event is reported when "
         "emulation of the same program on the same inputs gives other bytes.  tools/generate-emulation is built "
         "against the current library and its output must equal the checked-in emulator byte for byte, which extends "
         "C02's verdict on the emulator to the OPCODE form of the generator.",
    design_ref="DESIGN.md sections 6 (design) and 12 (as built), C04",
    note="Float opcodes and float/double parameters in generated C are checked by C18; index-map loads in generated C "
         "run on guarded arrays through C03's harness and Trace_Footprint; the C compiler is the installed gcc (-O2; "
         "-O0 too in the thorough tier).",
    technique="TLA+ executable reference semantics (OrcOps/OrcProg) evaluated by TLC on traces of gcc-compiled "
              "generated C; byte comparison of the regenerated emulator"),
 "C18": dict(
    text="OrcFloat.tla defines bit for bit, from the bytes of the operands, flushing of denormal operands and results, "
         "comparison masks, min/max selection (either operand when numerically equal, a NaN when an operand is one), "
         "float->int truncation with saturation, int->float round-to-nearest-even, float->double, and the NaN rule; "
         "the correctly rounded core of + - * / sqrt and double->float is the host's IEEE result logged with the "
         "event, accepted only after the specification has checked the operand flushing and the sanity of that result "
         "(all special cases, sign, exponent window; a contradiction is a machinery error, never a verdict).  h_ops "
         "runs one-opcode programs for all 27 float/double opcodes over all pairs of structured operand tables plus "
         "seeded random operands, second operand as array / float-double parameter / constant, x1/x2, on emulation, "
         "native sse and avx and gcc-compiled generated C; TLC validates every lane (Trace_Float) and the bit-for-bit "
         "agreement with emulation on finite operands.",
    design_ref="DESIGN.md sections 6 (design) and 12 (as built), C18",
    note="Known finding F20: when the exact result is below the smallest normal number but rounds up to it, hardware "
         "flush-to-zero gives 0 and emulation/C give the smallest normal (mulf, divf, muld, divd, convdf on sse/avx).  "
         "NaN payloads and NaN->int are unconstrained.  mmx has no float rules.",
    technique="TLA+ executable float semantics (OrcFloat) evaluated by TLC on traces of emulation, native code and "
              "compiled generated C, with a spec-checked host-IEEE oracle for the rounded core"),
 "C10": dict(
    text="Abi.tla gives the effect of push/pop, register writes, stmxcsr/ldmxcsr and the moves that carry the saved "
         "MXCSR through executor slots and registers, MMX instructions, emms and ret on the state a caller relies on; "
         "AbiGen.tla, the disciplined prologue/body/epilogue generator over it, is model-checked for every set of used "
         "callee-saved registers, float or not, MMX or not (ReturnsPreserved; the slot-mix-up deviation the code had is "
         "kept as a constant and violates it).  Conformance: (1) every listing the library returns for the corpus "
         "(test.orc, orcfunctions.orc, examples) and 50+ generated many-array / float / 2-D / accumulator / resampling "
         "programs on sse, avx, mmx is tokenised and replayed through Abi's actions, Preserved must hold at ret; (2) every "
         "program is called through an assembly trampoline that seeds rbx, rbp, r12-r15 and five MXCSR settings, lays "
         "pattern words on the caller's stack, and records registers, rsp, DF, MXCSR, x87 tag word; TLC checks each Call "
         "event (Trace_Abi).",
    design_ref="DESIGN.md sections 6 (design) and 12 (as built), C10",
    note="x86-64 System V only (32-bit and Windows conventions cannot be executed here); the executor structure may be "
         "written (the property exempts it); listing replay is a linear scan.",
    technique="TLA+ model of the calling-convention state (Abi/AbiGen) checked by TLC; TLC trace validation of "
              "tokenised listings and of trampoline-recorded machine state"),
 "C11": dict(
    text="IsaFlags.tla holds the ISA-level table (mnemonic x widest register class -> required feature) and what each "
         "Orc target flag grants; TLC checks the table is a function, that grants are monotone, and enumerates every flag "
         "subset of every x86 target (sse 16, avx 4, mmx 8).  For each configuration (plus frame-pointer / short-jump "
         "variants) h_ops compiles every integer opcode with array / parameter / constant second operand, x1/x2/x4, and "
         "every float / double opcode with orc_program_compile_full and exactly those flags; every listing that still "
         "compiles is tokenised and TLC validates each (mnemonic, class) against the table (Trace_Isa).  The same "
         "programs are run under the subsets and validated element by element against the reference semantics "
         "(Trace_Ops / Trace_Float), so results cannot depend on the subset.",
    design_ref="DESIGN.md sections 6 (design) and 12 (as built), C11",
    note="64-bit code only; a mnemonic the table does not know is a machinery error, not a verdict; multi-instruction "
         "programs are not compiled under subsets.  The quick tier runs 9 of the 28 configurations (x1 forms), the "
         "thorough tier all of them.",
    technique="TLA+ ISA/flag table checked and enumerated by TLC; TLC trace validation of tokenised listings per flag "
              "subset; reference-semantics validation of runs under the subsets"),
 "C07": dict(
    text="Program descriptions (the eight C01 templates with seeded opcodes, x2/x4, constants, int and 64-bit "
         "parameters, accumulators, 1-D/2-D, plus float / double / long parameter marshalling programs, twelve "
         "constant-n programs around the vector widths, programs with four destinations and eight sources (every "
         "callee-saved pointer register in use) and a 2-D accumulator) are rendered to .orc text; tools/orcc built from the current tree generates "
         "implementation and header in five modes (lazy init, --init-function, --inline, --compat, --no-backup); gcc "
         "compiles them against the library and, with -DDISABLE_ORC, without it; a generated driver calls every "
         "function through its C prototype (array pointers, strides, parameters of each C type, n, m, accumulator "
         "out-pointers) under JIT, ORC_CODE=backup, ORC_CODE=emulate and Orc-free; harness/orcc_rt.c records inputs and "
         "outputs as Prog events and TLC validates every element against the program semantics (OrcProg via "
         "Trace_Prog).  orc_memcpy / orc_memset are validated the same way as the programs copyb d1,s1 / copyb d1,p1 "
         "for lengths 0..300 and alignment pairs.",
    design_ref="DESIGN.md sections 6 (design) and 12 (as built), C07",
    note="A failing orcc run or gcc compile of generated code is itself a violation.  Float opcodes inside generated code "
         "are C18's/C04's; float and double parameters are marshalled into bitwise opcodes here.  --test mode output is "
         "not executed.",
    technique="TLA+ program semantics (OrcProg) evaluated by TLC on traces recorded by a driver calling orcc-generated "
              "code through its C prototypes in every build and run-time mode"),
 "C01": dict(
    text="Native code is judged against the reference semantics directly (so native = emulation follows and a shared "
         "error would still be caught).  (1) One-opcode programs for every integer opcode compiled for avx, sse and "
         "mmx by target name, second operand as array / parameter / constant, x1/x2/x4, n crossing every vector "
         "width, misaligned arrays: TLC validates every element against OrcOps.  (2) Multi-instruction programs from "
         "8 templates (temporaries reused and rewritten, repeated operands, an operand live while the other dies, "
         "in-place destinations, constants, parameters, accumulators, x2/x4, 1-D and 2-D with unequal row alignment) "
         "with seeded opcode choices, each run 14 times on one reused executor on avx/sse/mmx/emulation: TLC "
         "validates every destination row, accumulator and fence against OrcProg.  (3) X86Loop.tla, the head/body/"
         "tail split, is model-checked for every n <= 70, start address, element and register size, unroll shift "
         "(each index exactly once, never past n, aligned body), and the stale-counter variant is refuted.",
    design_ref="DESIGN.md sections 6 (design) and 12 (as built), C01",
    note="Value coverage is bounded by TLC's evaluation rate (about 10^5..10^6 elements per run); flag subsets are "
         "C11's, float opcodes C18's; rows are aligned to the element size; programs have at most 4 instructions; one "
         "x-flag per program (a parameter used by an x2 and a plain instruction of one program is not covered).",
    technique="TLA+ executable semantics (OrcOps, OrcProg) evaluated by TLC on traces of native executions; TLC model "
              "checking of the loop-split design (X86Loop)"),
}

NOT_APPLICABLE = {
 "C12": "Defined relative to an external assembler (translation validation of an encoder): no state or history for a "
        "TLA+ specification to add to; see DESIGN.md section 7.",
}
for _p in ["C%02d" % i for i in range(1, 21)]:
    if _p not in CLAIMS and _p not in NOT_APPLICABLE:
        NOT_APPLICABLE[_p] = NOT_YET
