"""What MANIFEST.json claims; bin/mkmanifest renders it."""
import subprocess

def _hooks():
    try:
        out = subprocess.run(["git", "-C", "/repo", "log", "--format=%H %s"], stdout=subprocess.PIPE).stdout.decode()
        return [l.split()[0] for l in out.splitlines() if " verif hook" in l]
    except Exception:
        return []

HOOK_COMMITS = _hooks()

NOT_YET = "check not built yet in this round (planned, see DESIGN.md section 6); not claimed until it runs clean"

CLAIMS = {
 "C09": dict(
    text="TLC exhaustively model-checks the first-fit chunk-list model of orccodemem.c (Tiling, Coalesced, "
         "UsedIsLive, RegionBound, refinement of the property-level CodeMemAbs); every edge of the reachable graph "
         "yields a behaviour that is replayed into the real allocator in a fresh process, and the traces recorded "
         "from the real code (hook events under the global mutex + observations through OrcCode fields and the "
         "read-only walker), plus long seeded histories of real compile/take_code/free with re-execution and "
         "re-hashing of every live function, are validated by TLC against CodeMemAbs.",
    design_ref="DESIGN.md section 6 C09",
    note="Bounded model (3-4 handles, 4-unit regions, <=3 regions); the allocator hooks report the allocator's own "
         "bookkeeping; byte-level integrity is observed by the harness through the public code/exec pointers.",
    technique="TLA+ spec + TLC model checking; behaviour replay into liborc; TLC trace validation against CodeMemAbs"),
}

NOT_APPLICABLE = {
 "C12": "Defined relative to an external assembler (translation validation of an encoder): no state or history for a "
        "TLA+ specification to add to; see DESIGN.md section 7.",
}
for _p in ["C%02d" % i for i in range(1, 21)]:
    if _p not in CLAIMS and _p not in NOT_APPLICABLE:
        NOT_APPLICABLE[_p] = NOT_YET
