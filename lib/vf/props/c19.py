"""C19 - the default target is the best backend the CPU really supports.

1. TLC checks spec/TargetSelect.tla for every CPU (2^10 feature sets x 3 XCR0 values) and
   every override value: the selection as the code computes it (registration order, last
   executable wins, flags from CPUID words, override rule) meets the property
   (NeverExecutableWithoutSupport, DetectedIsBest, FlagsWithinCpu, OverrideHonoured,
   OverrideNeverUnrunnable).
2. The same states are presented to the real library, one child process each, through the
   hook ORC_VERIF_CPUID; the child reports default target, executable flags, default flags
   and compiles+runs a program through the default path.  Each report is a Target event
   validated by TLC against the property half of TargetSelect.
"""
import os, json, itertools
from ..common import *
from .. import trace as T

FEATURES = ["MMX", "SSE2", "SSE3", "SSSE3", "SSE41", "SSE42", "XSAVE", "OSXSAVE", "AVX", "AVX2"]
ECX = {"SSE3": 0, "SSSE3": 9, "SSE41": 19, "SSE42": 20, "XSAVE": 26, "OSXSAVE": 27, "AVX": 28}
EDX = {"MMX": 23, "SSE2": 26}
OVERRIDES = ["", "sse", "mmx", "avx", "c", "neon", "mips", "bogus", "ss", "EMPTY"]


def words(cpu):
    ecx = sum(1 << ECX[f] for f in cpu if f in ECX)
    edx = sum(1 << EDX[f] for f in cpu if f in EDX)
    ebx7 = (1 << 5) if "AVX2" in cpu else 0
    return ecx, edx, ebx7


def all_cpus():
    for r in range(len(FEATURES) + 1):
        for c in itertools.combinations(FEATURES, r):
            for x in (0, 2, 6):
                yield list(c), x


def run(ctx):
    quick = ctx.quick
    fn = os.path.join(ctx.work, "TS.cfg")
    open(fn, "w").write('SPECIFICATION Spec\nCONSTANTS Overrides = {%s}\nINVARIANTS NeverExecutableWithoutSupport '
                        'DetectedIsBest FlagsWithinCpu OverrideHonoured UnknownOverrideIgnored OverrideNeverUnrunnable\nCHECK_DEADLOCK FALSE\n'
                        % ", ".join('"%s"' % ("" if o == "EMPTY" else o) for o in OVERRIDES))
    res = tlc("TargetSelect", fn, workers=8, timeout=900)
    if not tlc_ok(res, "TargetSelect"):
        rp = ctx.save_replay("model.txt", res["out"][-6000:])
        ctx.violation("TargetSelect design model violates %s" % res["violated"], rp)
        return
    ctx.add_model(res, "TargetSelect")
    cpus = list(all_cpus())
    lines = []
    interesting = lambda c: ("AVX" in c or "AVX2" in c or "OSXSAVE" in c or len(c) <= 3)
    for c, x in cpus:
        ecx, edx, ebx = words(c)
        base = "%x %x %x %x" % (ecx, edx, ebx, x)
        js = json.dumps(c, separators=(",", ":"))
        lines.append("%s ORC_BACKEND - %s" % (base, js))
    ctx.rng.shuffle(lines)
    if quick:
        lines = lines[:1200]
    ov = []
    sample = cpus[:]
    ctx.rng.shuffle(sample)
    for c, x in sample[: (400 if quick else 3000)]:
        ecx, edx, ebx = words(c)
        base = "%x %x %x %x" % (ecx, edx, ebx, x)
        js = json.dumps(c, separators=(",", ":"))
        for o in OVERRIDES[1:]:
            ov.append("%s ORC_BACKEND %s %s" % (base, o, js))
    doc = []
    for c, x in sample[:60]:
        ecx, edx, ebx = words(c)
        doc.append("%x %x %x %x ORC_TARGET %s %s" % (ecx, edx, ebx, x, "sse", json.dumps(c, separators=(",", ":"))))
        doc.append("%x %x %x %x ORC_TARGET %s %s" % (ecx, edx, ebx, x, "mmx", json.dumps(c, separators=(",", ":"))))
    ctx.sample(lines[0]); ctx.sample(ov[0])
    binary = build_harness("h_target", "hook")

    def drive(a):
        i, ls, label = a
        bf = os.path.join(ctx.work, "%s_%d.txt" % (label, i))
        tf = os.path.join(ctx.work, "%s_%d.ndjson" % (label, i))
        open(bf, "w").write("\n".join(ls) + "\n")
        if os.path.exists(tf):
            os.unlink(tf)
        rc, out = sh(["env", "-u", "ORC_BACKEND", "-u", "ORC_TARGET", "ORC_VERIF_TRACE=" + tf, binary, bf], timeout=1500)
        if rc not in (0, 3):
            raise MachineryError("h_target failed rc=%d %s" % (rc, out[-1000:]))
        return tf
    jobs = [(i, c, "cpu") for i, c in enumerate(chunks(lines + ov, NCPU))]
    tfs = parallel(drive, jobs)

    def val(tf, env=None):
        rows = read_ndjson(tf)
        bad = []
        guard = 0
        cur = tf
        r = T.validate("Trace_TargetSelect", "Trace_TargetSelect.cfg", cur, env=env, timeout=900)
        ctx.cov["trace_states"] = ctx.cov.get("trace_states", 0) + r["res"]["distinct"]
        while not r["accepted"] and guard < 10:
            guard += 1
            bad.append(rows[r["rejected_at"] - 1])
            rows = rows[:r["rejected_at"] - 1] + rows[r["rejected_at"]:]
            cur = tf + ".rest"
            write_ndjson(cur, rows)
            r = T.validate("Trace_TargetSelect", "Trace_TargetSelect.cfg", cur, env=env, timeout=900)
        return bad, sum(1 for x in rows if x["e"] == "Target")
    n = 0
    for bad, good in parallel(val, tfs):
        ctx.cov["traces_validated_against_impl"] += good
        for ev in bad[:3]:
            n += 1
            rp = ctx.save_replay("target_%d.ndjson" % n, json.dumps(ev) + "\n")
            ctx.violation("library's target selection contradicts the property for %s" % json.dumps(ev)[:400], rp)
    # the documented override variable
    tfd = drive((0, doc, "doc"))
    bad, good = val(tfd, env={"DOC": "1"})
    for ev in bad:
        sig = dict(var=ev.get("var"), kind="override-ignored")
        k = ctx.match_known(sig)
        if k:
            ctx.known_finding(k["key"], k["what"])
        else:
            rp = ctx.save_replay("target_doc.ndjson", json.dumps(ev) + "\n")
            ctx.violation("documented override not honoured: %s" % json.dumps(ev)[:300], rp)
    ctx.cov["cpu_descriptions_replayed"] = len(lines)
    ctx.cov["override_cases_replayed"] = len(ov) + len(doc)
    ctx.cov["exhaustive"] = not quick
    ctx.cov["rule"] = ("TLC enumerates all 3072 CPUs x override values at design level; replay: every CPU without "
                       "override in the thorough tier (seeded sample of 1200 in quick) + sampled CPUs x 9 override values")


def replay(ctx, path):
    r = T.validate("Trace_TargetSelect", "Trace_TargetSelect.cfg", path)
    ctx.cov["states"] = max(1, r["res"]["distinct"]); ctx.cov["transitions"] = max(1, r["res"]["generated"])
    if not r["accepted"]:
        ctx.violation("replayed Target event rejected", path)
