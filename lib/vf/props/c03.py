"""C03 - executing a program touches only the array elements it is entitled to.

spec/Footprint.tla defines, per opcode kind, n and index-map parameters, the set of source
elements a program may read (destinations: exactly 0..n-1).  TLC enumerates every
configuration up to MaxN and prints it with the hull lo..hi of the entitled set; X86Loop
(see C01) shows at design level that head/body/tail steps stay within 0..n-1.
harness/h_guard maps every array exactly as large as the specification entitles, flush
against a PROT_NONE page on the chosen side, sources read-only, rows of 2-D runs separated by
canaried gaps, and runs native code (avx, sse, mmx) and emulation.  A SIGSEGV/SIGBUS is caught
and reported with the array and element offset.  TLC validates each Access event against
Trace_Footprint: lo/hi are the specification's, no fault, canaries intact, destination equal
to emulation's, and for the index-map loads the values the reference gives.
"""
import os, json
from ..common import *
from .. import trace as T
from .. import genops
from . import c02

SPECIAL = {"loadoff": ["loadoffb", "loadoffw", "loadoffl"], "loadupdb": ["loadupdb"], "loadupib": ["loadupib"],
           "ldresnear": ["ldresnearb", "ldresnearl"], "ldreslin": ["ldreslinb", "ldreslinl"]}


def configs(ctx, maxn):
    fn = os.path.join(ctx.work, "FP.cfg")
    open(fn, "w").write("SPECIFICATION Spec\nCONSTANTS MaxN = %d\nINVARIANTS Monotone PlainIsRow DumpInv\nCHECK_DEADLOCK FALSE\n" % maxn)
    res = tlc("Footprint", fn, workers=1, timeout=1500)
    if not tlc_ok(res, "Footprint"):
        rp = ctx.save_replay("footprint.txt", res["out"][-4000:])
        ctx.violation("Footprint specification violates %s" % res["violated"], rp)
        return []
    ctx.add_model(res, "Footprint")
    return [json.loads(json.loads(l)[4:]) for l in res["out"].splitlines() if l.startswith('"CFG ')]


def guard_val(a):
    p, tf = a
    rows = read_ndjson(tf)
    bad, g = [], 0
    r = T.validate("Trace_Footprint", "Trace_Footprint.cfg", tf, timeout=3000, heap="6g")
    while not r["accepted"] and g < 25:
        g += 1
        ev = rows[r["rejected_at"] - 1]
        bad.append(ev)
        same_sig = lambda x: (x.get("op") == ev.get("op") and x.get("e") == ev.get("e") and
                              x.get("fault") == ev.get("fault") and (x.get("b", 0) >= 65536) == (ev.get("b", 0) >= 65536)
                              and x.get("same") == ev.get("same"))
        rows = [x for x in rows[r["rejected_at"]:] if not same_sig(x)]
        if not rows:
            break
        write_ndjson(tf + ".rest", rows)
        r = T.validate("Trace_Footprint", "Trace_Footprint.cfg", tf + ".rest", timeout=3000, heap="6g")
    allr = read_ndjson(tf)
    return p, bad, sum(1 for x in allr if x["e"] == "Access"), sum(1 for x in allr if x["e"] == "NoCode")


def guard_report(ctx, traces, prop="C03"):
    n = 0
    seen = set()
    for p, bad, runs, nocode in parallel(guard_val, traces):
        ctx.cov["traces_validated_against_impl"] += runs
        ctx.cov["no_native_code"] = ctx.cov.get("no_native_code", 0) + nocode
        for ev in bad:
            key = (ev.get("op"), ev.get("path"), ev.get("fault"), ev.get("b", 0) >= 65536)
            if key in seen:
                continue
            seen.add(key)
            sig = dict(op=ev.get("op"), path=ev.get("path"), kind="footprint", fault=ev.get("fault"),
                       bint=ev.get("b", 0) >= 65536)
            k = ctx.match_known(sig)
            if k:
                ctx.known_finding(k["key"], k["what"]); continue
            n += 1
            rp = ctx.save_replay("guard_%d.ndjson" % n, json.dumps(ev) + "\n")
            ctx.violation(prop + ": %s on %s, n=%s m=%s place=%s: fault=%s (array %s element %s) canary=%s same-as-emulation=%s "
                          "(entitled source elements %s..%s)" % (ev.get("op"), ev.get("path"), ev.get("n"), ev.get("m"),
                                                                   ev.get("place"), ev.get("fault"), ev.get("farr"), ev.get("fel"),
                                                                   ev.get("canary"), ev.get("same"), ev.get("lo"), ev.get("hi")), rp)


def run(ctx):
    quick = ctx.quick
    ops = c02.int_ops(genops.write())
    cfgs = configs(ctx, 40 if quick else 130)
    if not cfgs:
        return
    plain_ops = [o["name"] for o in ops if "ACCUMULATOR" not in o["flags"] or True]
    if quick:
        # every load/store-bearing kind; plain: a seeded third of the opcodes plus fixed ones
        keep = set(["copyb", "addw", "convsbw", "convwb", "mergebw", "splitwb", "mulslq", "accw", "accsadubl", "select1lw",
                    "swapq", "addq", "shlw", "mullb", "convssslw", "splatbl"])
        rest = [n for n in plain_ops if n not in keep]
        ctx.rng.shuffle(rest)
        plain_ops = sorted(keep | set(rest[:30]))
    lines = []
    for c in cfgs:
        names = plain_ops if c["kind"] == "plain" else SPECIAL[c["kind"]]
        for nm in names:
            if c["kind"] == "plain" and quick and c["n"] > 36 and c["n"] not in (40,):
                pass
            for place in (0, 1):
                ms = (1, 3) if (c["kind"] == "plain" and c["n"] % 5 == 0) else \
                    ((1, 2) if (c["kind"] != "plain" and c["n"] % 4 == 0) else (1,))
                for m in ms:
                    lines.append("%s %s %d %d %d %d %d %d %d %d" % (c["kind"], nm, c["n"], c["off"], c["b"], c["c"],
                                                                    c["lo"], c["hi"], place, m))
    if quick:
        sp = [l for l in lines if not l.startswith("plain")]
        pl = [l for l in lines if l.startswith("plain")]
        ctx.rng.shuffle(sp); ctx.rng.shuffle(pl)
        lines = sp[:3000] + pl[:5000]
    # larger n for the plain kind (vector widths, unrolled body)
    for n in (63, 64, 65, 66, 127, 128, 129, 130, 255, 256, 257) + (() if quick else tuple(range(131, 262, 3))):
        for nm in (plain_ops if not quick else plain_ops[::3]):
            for place in (0, 1):
                lines.append("plain %s %d 0 0 0 0 %d %d 1" % (nm, n, n - 1, place))
    ctx.cov["configurations"] = len(cfgs)
    ctx.cov["plan_lines"] = len(lines)
    ctx.sample(lines[0]); ctx.sample(lines[-1])
    binary = build_harness("h_guard", "hook")
    paths = ["avx", "sse", "mmx", "emu"]
    jobs = []
    for p in paths:
        for i, ch in enumerate(chunks(lines, NCPU // len(paths))):
            jobs.append((p, i, ch))
    def one(a):
        p, i, ch = a
        pf = os.path.join(ctx.work, "g_%s_%d.plan" % (p, i))
        tf = os.path.join(ctx.work, "g_%s_%d.ndjson" % (p, i))
        open(pf, "w").write("\n".join(ch) + "\n")
        if os.path.exists(tf):
            os.unlink(tf)
        rc, out = sh([binary, p, pf], timeout=3000, env={"ORC_VERIF_TRACE": tf})
        if rc != 0:
            raise MachineryError("h_guard failed rc=%d %s" % (rc, out[-600:]))
        return p, tf
    traces = parallel(one, jobs)
    guard_report(ctx, traces)
    ctx.cov["exhaustive"] = False
    ctx.cov["rule"] = ("every Footprint configuration up to MaxN (index-map loads: all; plain: all opcodes in the thorough "
                       "tier, a seeded subset in quick) x both placements x 4 paths, plus n around 64/128/256")
    ctx.assumptions += ["page-granular guards: an over-read inside the entitled page range is invisible unless it crosses "
                        "the array's end (arrays are flush against the guard on the chosen side only)"]


def replay(ctx, path):
    r = T.validate("Trace_Footprint", "Trace_Footprint.cfg", path)
    ctx.cov["states"] = max(1, r["res"]["distinct"]); ctx.cov["transitions"] = max(1, r["res"]["generated"])
    if not r["accepted"]:
        ctx.violation("replayed Access event rejected", path)
