"""C13 - bytecode round trip preserves the program.

1. spec/Bytecode.tla defines Encode / Decode between abstract programs and byte sequences;
   TLC checks RoundTrip (Decode(Encode p) = Norm p) and Stable (Encode(Decode(Encode p)) =
   Encode p) for every program Gen_Bytecode builds within the step bound: boundary values
   254/255/256/65534 in every integer field, all parameter classes, 32/64-bit constants
   with sign bits set, 2-D, long names, x2/x4 flags, 1-3 operand and 2-destination opcodes.
2. Seeded TLC simulation prints longer programs; each is built through the construction API,
   serialised by the library, reconstructed from the bytes and serialised again
   (harness/h_bytecode, ASan build, fresh child each).
3. TLC validates each BC event against Trace_Bytecode: reconstruction = Norm(original),
   identical bytes on the second serialisation, identical emulation results.  Agreement of
   the library's bytes with the specification's Encode is diagnostic (INFO spec-drift).
Also: the opcode numbering of orcbytecodes.h must be the order of the opcode table.
"""
import os, json, re
from ..common import *
from .. import trace as T
from .. import genops


def cfg(ctx, name, steps, dump):
    fn = os.path.join(ctx.work, name + ".cfg")
    open(fn, "w").write("SPECIFICATION Spec\nCONSTANTS\n MaxSteps = %d\n DumpAt = %d\nINVARIANTS RoundTripInv StableInv%s\n"
                        "CHECK_DEADLOCK FALSE\n" % (steps, dump, " DumpInv" if dump < 99 else ""))
    return fn


def render(p):
    t = ["N %d %d %d %d %d %d %d" % (p["cn"], p["nmul"], p["nmin"], p["nmax"], 1 if p["twod"] else 0, p["cm"], len(p["name"]))]
    t += ["D %d %d" % (x["size"], x["align"]) for x in p["d"]]
    t += ["S %d %d" % (x["size"], x["align"]) for x in p["s"]]
    t += ["A %d" % x for x in p["a"]]
    t += ["C %d %s" % (x["size"], " ".join(map(str, x["bytes"]))) for x in p["c"]]
    t += ["P %d %s" % (x["size"], x["ptype"]) for x in p["p"]]
    t += ["T %d" % x for x in p["t"]]
    t += ["I %d %d %s" % (x["flags"], x["op"], " ".join(map(str, x["args"]))) for x in p["insns"]]
    return "|".join(t)


def numbering(ctx, ops):
    """orcbytecodes.h: ORC_BC_<name> must be 32 + table index"""
    src = open(os.path.join(REPO, "orc", "orcbytecodes.h")).read()
    names = re.findall(r"ORC_BC_([a-z0-9]+)\s*[,=]", src)
    table = [o["name"] for o in ops]
    enum = [n for n in names if n in set(table)]
    if enum != table[:len(enum)]:
        k = next(i for i in range(len(enum)) if enum[i] != table[i])
        rp = ctx.save_replay("numbering.txt", "enum: %s\ntable: %s\n" % (enum, table))
        ctx.violation("opcode numbering of orcbytecodes.h differs from the opcode table (first difference at %d: "
                      "%s vs %s)" % (k, enum[k], table[k]), rp)
    elif len(enum) < len(table):
        ctx.info("orcbytecodes.h does not name the last %d opcodes of the table (%s); the numbers it does define "
                 "agree with the table" % (len(table) - len(enum), ", ".join(table[len(enum):])))
    ctx.cov["opcode_numbers_compared"] = len(table)


def run(ctx):
    quick = ctx.quick
    ops = genops.write()
    numbering(ctx, ops)
    res = tlc("Gen_Bytecode", cfg(ctx, "BC_mc", 3 if quick else 4, 99), workers=8, timeout=3000, heap="10g")
    if not tlc_ok(res, "Bytecode round trip"):
        rp = ctx.save_replay("model.txt", res["out"][-6000:])
        ctx.violation("Bytecode specification violates %s" % res["violated"], rp)
        return
    ctx.add_model(res, "Gen_Bytecode")
    progs = []
    for depth, n in ((14, 500 if quick else 6000), (8, 300 if quick else 3000), (22, 200 if quick else 2000)):
        sim = tlc("Gen_Bytecode", cfg(ctx, "BC_sim%d" % depth, depth, depth), workers=1, timeout=1500,
                  simulate=n, depth=depth + 1, seed=ctx.seed + depth)
        tlc_ok(sim, "Gen_Bytecode simulation")
        for l in sim["out"].splitlines():
            if l.startswith('"PROG '):
                progs.append(json.loads(json.loads(l)[5:]))
    lines = sorted(set(render(p) for p in progs))
    ctx.cov["distinct_programs"] = len(lines)
    ctx.sample(lines[0]); ctx.sample(lines[-1])
    binary = build_harness("h_bytecode", "asan")
    def one(a):
        i, ls = a
        bf = os.path.join(ctx.work, "bc_%d.txt" % i)
        tf = os.path.join(ctx.work, "bc_%d.ndjson" % i)
        open(bf, "w").write("\n".join(ls) + "\n")
        if os.path.exists(tf):
            os.unlink(tf)
        rc, out = sh([binary, bf], timeout=1200, env={"ORC_VERIF_TRACE": tf, "ASAN_OPTIONS": "exitcode=99:detect_leaks=0"})
        if rc not in (0, 3):
            raise MachineryError("h_bytecode failed rc=%d %s" % (rc, out[-800:]))
        return tf
    tfs = parallel(one, list(enumerate(chunks(lines, NCPU))))
    def val(tf):
        rows = read_ndjson(tf)
        bad = []
        r = T.validate("Trace_Bytecode", "Trace_Bytecode.cfg", tf, timeout=1500, heap="4g")
        drift = set(re.sub(r", \d+>>", ">>", l) for l in r["res"]["out"].splitlines() if l.startswith('<<"DRIFT"'))
        g = 0
        while not r["accepted"] and g < 6:
            g += 1
            bad.append(rows[r["rejected_at"] - 1])
            rows = rows[:r["rejected_at"] - 1] + rows[r["rejected_at"]:]
            write_ndjson(tf + ".rest", rows)
            r = T.validate("Trace_Bytecode", "Trace_Bytecode.cfg", tf + ".rest", timeout=1500, heap="4g")
        return bad, sum(1 for x in rows if x["e"] == "BC"), drift
    n = 0
    for bad, good, drift in parallel(val, tfs):
        ctx.cov["traces_validated_against_impl"] += good
        for d in drift:
            if ("spec-drift " + d) not in ctx.infos:
                ctx.info("spec-drift " + d)
        for ev in bad[:3]:
            n += 1
            rp = ctx.save_replay("bc_%d.ndjson" % n, json.dumps(ev) + "\n")
            diff = [k for k in ev.get("prog", {}) if ev.get("back", {}).get(k) != ev["prog"][k]] if ev.get("e") == "BC" else []
            sig = dict(kind="roundtrip", fields=",".join(sorted(diff)),
                       ptypes=",".join(sorted(set(x["ptype"] for x in ev.get("prog", {}).get("p", [])) -
                                              set(x["ptype"] for x in ev.get("back", {}).get("p", [])))))
            k = ctx.match_known(sig)
            if k:
                ctx.known_finding(k["key"], k["what"])
                continue
            ctx.violation("round trip changed the program (fields %s; same_bytes=%s emu=%s): %s" % (
                diff, ev.get("same_bytes"), ev.get("emu"), json.dumps(ev)[:300]), rp)
    ctx.cov["exhaustive"] = True
    ctx.cov["rule"] = ("design level: every program Gen_Bytecode reaches within MaxSteps; replay: distinct programs of "
                       "seeded TLC simulations of 8, 14 and 22 construction steps")


def replay(ctx, path):
    r = T.validate("Trace_Bytecode", "Trace_Bytecode.cfg", path)
    ctx.cov["states"] = max(1, r["res"]["distinct"]); ctx.cov["transitions"] = max(1, r["res"]["generated"])
    if not r["accepted"]:
        ctx.violation("replayed BC event rejected", path)
