"""C01 - native code computes exactly what emulation computes.

Decided against the reference semantics directly (so native = emulation follows, and an error
shared by both would still be caught): spec/OrcOps.tla for single opcodes, spec/OrcProg.tla for
whole programs.
1. One-opcode programs for every integer opcode, compiled for avx, sse and mmx (by target name,
   not through the environment), over boundary-biased / random operands with the second operand
   as array, parameter and constant, x1/x2/x4, n crossing every vector width, misaligned arrays
   (harness/h_ops; TLC validates every element against OrcOps, Trace_Ops).
2. Multi-instruction programs from eight templates (temporaries reused and rewritten, operands
   repeated, an operand staying live while the other dies, in-place destinations, constants,
   parameters, accumulators, x2/x4, 1-D and 2-D with unequal row alignment) instantiated with
   seeded opcode choices for 1/2/4-byte elements; every program runs 14 times on one reused
   executor with varying n, m, misalignment and stride, on avx, sse, mmx and emulation
   (harness/h_prog; TLC validates every destination row, accumulator and fence against OrcProg,
   Trace_Prog).  Every same-size binary opcode is also placed, systematically, in the three
   templates where the register allocator can give the destination the register of either
   operand (both operands one temporary; one operand dying while the other stays live).
3. Design level: spec/X86Loop.tla -- the split of n into head / body / tail for every start
   alignment, loop shift and n -- is model-checked (each index processed exactly once).
"""
import os, json, re
from ..common import *
from .. import trace as T
from .. import genops
from . import c02


def prog_plan(ops, rng, nprog):
    by = {}
    for o in ops:
        n = o["name"]
        if len(o["dest"]) != 1 or "ACCUMULATOR" in o["flags"] or n.startswith(c02.LOADS):
            continue
        if "FLOAT" in o["flags"] and n not in ("orf", "andf"):
            continue
        sd = o["dest"][0]; ss = o["src"]
        if len(ss) == 2 and ss[0] == ss[1] == sd:
            by.setdefault(("scal" if "SCALAR" in o["flags"] else "bin", sd), []).append(n)
    lines = []
    tpls = ["chain", "live", "inplace", "repeat", "three", "param", "acc", "rewrite"]
    for i in range(nprog):
        tpl = tpls[i % len(tpls)]
        w = rng.choice([1, 2, 2, 4, 4, 1, 8])
        if tpl == "acc" and w not in (2, 4):
            w = rng.choice([2, 4])
        B = by.get(("bin", w), [])
        S = by.get(("scal", w), [])
        if not B:
            continue
        o1, o2, o3 = rng.choice(B), rng.choice(B), rng.choice(B)
        if tpl in ("inplace", "param") and S and rng.random() < 0.5:
            if tpl == "inplace":
                o2 = rng.choice(S)
            else:
                o1 = rng.choice(S)
        mult = rng.choice([1, 1, 2, 4])
        if w * mult > 8 or (tpl == "acc" and mult != 1):
            mult = 1
        lines.append("%s %d %s %s %s %d %d" % (tpl, w, o1, o2, o3, mult, rng.randrange(1, 10 ** 6)))
    return lines


def systematic_plan(ops, quick):
    """every same-size binary opcode in the templates where register allocation can hand the destination the
    register of either operand: both operands the same temporary (repeat), the second operand dying while the first
    stays live (three), the first dying while the second stays live (live); and feeding an accumulator (acc): the
    narrow steps of the loop leave lanes of the operand undefined, which must stay out of the sum"""
    lines = []
    k = 0
    for o in ops:
        n = o["name"]
        if len(o["dest"]) != 1 or "ACCUMULATOR" in o["flags"] or n.startswith(c02.LOADS) or "SCALAR" in o["flags"]:
            continue
        if "FLOAT" in o["flags"] and n not in ("orf", "andf"):
            continue
        sd = o["dest"][0]; ss = o["src"]
        if not (len(ss) == 2 and ss[0] == ss[1] == sd):
            continue
        for tpl in ("repeat", "three", "live") + (("acc",) if sd in (2, 4) else ()):
            for mult in ((1,) if quick or tpl == "acc" else (1, 2, 4)):
                if sd * mult > 8:
                    continue
                k += 1
                lines.append("%s %d %s %s %s %d %d" % (tpl, sd, n, n, n, mult, 1000 + k))
    return lines


def width_plan(ops, quick, seed):
    """one parameter used at two widths in one program (the compiler keeps one loaded copy per parameter and
    size): a w-wide opcode and an opcode of half that width on its own narrower arrays both take P1, wide use
    first (pwide) and narrow use first (pnarrow)"""
    by = {}
    for o in ops:
        n = o["name"]
        if len(o["dest"]) != 1 or "ACCUMULATOR" in o["flags"] or n.startswith(c02.LOADS) or "SCALAR" in o["flags"]:
            continue
        if "FLOAT" in o["flags"]:
            continue
        sd = o["dest"][0]; ss = o["src"]
        if len(ss) == 2 and ss[0] == ss[1] == sd:
            by.setdefault(sd, []).append(n)
    lines = []
    k = 0
    for w in (2, 4, 8):
        W, N = sorted(by.get(w, [])), sorted(by.get(w // 2, []))
        if not W or not N:
            continue
        if quick:
            W = [W[(seed * 7 + i * 5) % len(W)] for i in range(6)]
        for i, o1 in enumerate(W):
            o2 = N[(seed + i * 3 + w) % len(N)]
            for tpl in ("pwide", "pnarrow"):
                k += 1
                lines.append("%s %d %s %s %s 1 %d" % (tpl, w, o1, o2, o2, 2000 + k))
    return lines


def run_progs(ctx, lines, paths, label):
    binary = build_harness("h_prog", "hook")
    jobs = []
    for path in paths:
        for i, ch in enumerate(chunks(lines, max(1, NCPU // len(paths)))):
            jobs.append((path, i, ch))
    def one(a):
        path, i, ch = a
        pf = os.path.join(ctx.work, "%s_%s_%d.plan" % (label, path, i))
        tf = os.path.join(ctx.work, "%s_%s_%d.ndjson" % (label, path, i))
        open(pf, "w").write("\n".join(ch) + "\n")
        if os.path.exists(tf):
            os.unlink(tf)
        rc, out = sh([binary, path, pf], timeout=3000, env={"ORC_VERIF_TRACE": tf})
        if rc != 0:
            raise MachineryError("h_prog failed rc=%d %s" % (rc, out[-800:]))
        return path, tf
    return parallel(one, jobs)


def validate_progs(ctx, traces, label, prop):
    def val(a):
        path, tf = a
        rows = read_ndjson(tf)
        bad, elems, g = [], 0, 0
        r = T.validate("Trace_Prog", "Trace_Prog.cfg", tf, timeout=3000, heap="6g")
        while True:
            if r["accepted"]:
                m = re.search(r'"ELEMENTS", (\d+)', r["res"]["out"])
                elems += int(m.group(1)) if m else 0
                break
            g += 1
            ev = rows[r["rejected_at"] - 1]
            bad.append(ev)
            key = json.dumps(ev.get("insns")) if ev.get("e") == "Prog" else ev.get("plan")
            rows = [x for x in rows[r["rejected_at"]:]
                    if not (json.dumps(x.get("insns")) == key and x.get("e") == "Prog")]
            if not rows or g > 30:
                break
            write_ndjson(tf + ".rest", rows)
            r = T.validate("Trace_Prog", "Trace_Prog.cfg", tf + ".rest", timeout=3000, heap="6g")
        allr = read_ndjson(tf)
        return path, bad, elems, sum(1 for x in allr if x["e"] == "Prog"), sum(1 for x in allr if x["e"] == "NoCode")
    n = 0
    for path, bad, elems, runs, nocode in parallel(val, traces):
        ctx.cov["elements_validated"] = ctx.cov.get("elements_validated", 0) + elems
        ctx.cov["traces_validated_against_impl"] += runs
        ctx.cov["programs_without_native_code"] = ctx.cov.get("programs_without_native_code", 0) + nocode
        for ev in bad[:4]:
            n += 1
            rp = ctx.save_replay("%s_%d.ndjson" % (label, n), json.dumps(ev) + "\n")
            if ev.get("e") == "Prog":
                ctx.violation("%s: program %s (template %s) on path %s gives other bytes than the program semantics "
                              "(n=%s m=%s off=%s stride=%s fence=%s)" % (prop, json.dumps(ev["insns"]), ev["tpl"], ev["path"],
                                                                         ev["n"], ev["m"], ev["off"], ev["stride"], ev["fence"]), rp)
            else:
                ctx.violation("%s: %s" % (prop, json.dumps(ev)[:300]), rp)


def loop_model(ctx):
    res = tlc("X86Loop", "MC_X86Loop.cfg", workers=8, timeout=1500, heap="6g")
    if not tlc_ok(res, "X86Loop"):
        rp = ctx.save_replay("x86loop.txt", res["out"][-5000:])
        ctx.violation("X86Loop design model violates %s" % res["violated"], rp)
    else:
        ctx.add_model(res, "X86Loop")


def run(ctx):
    quick = ctx.quick
    ops_all = genops.write()
    ops = c02.int_ops(ops_all)
    import threading
    th = threading.Thread(target=lambda: loop_model(ctx))
    th.start()
    modes = ("bnd", "par", "con") if quick else ("bnd", "rnd", "par", "con", "ex8")
    lines = [l for l in c02.plan(ops, quick, ctx.seed) if l.split()[2] in modes]
    ctx.cov["single_opcode_plan_lines"] = len(lines)
    ctx.rng.shuffle(lines)
    traces = c02.run_paths(ctx, lines, ["avx", "sse", "mmx"], "c01op")
    c02.validate_ops(ctx, traces, "c01op", "C01")
    plines = prog_plan(ops_all, ctx.rng, 96 if quick else 1600)
    slines = systematic_plan(ops_all, quick)
    ctx.cov["systematic_programs"] = len(slines)
    wlines = width_plan(ops_all, quick, ctx.seed)
    ctx.cov["two_width_parameter_programs"] = len(wlines)
    plines = slines + wlines + plines
    ctx.cov["programs"] = len(plines)
    ctx.sample(lines[0]); ctx.sample(plines[0]); ctx.sample(plines[-1])
    ptraces = run_progs(ctx, plines, ["avx", "sse", "mmx", "emu"], "c01prog")
    validate_progs(ctx, ptraces, "c01prog", "C01")
    th.join()
    ctx.cov["exhaustive"] = False
    ctx.cov["rule"] = ("one-opcode programs: every integer opcode x {array, parameter, constant} second operand x "
                       "x1/x2/x4 x 3 targets; multi-instruction programs: 8 templates x seeded opcode choices + the two "
                       "two-width parameter templates x 14 runs "
                       "(n, m, misalignment, stride) x 4 paths")
    ctx.assumptions += ["flag subsets other than the defaults are C11's", "float opcodes are C18's",
                        "rows are aligned to the element size"]


def replay(ctx, path):
    rows = read_ndjson(path)
    mod = "Trace_Prog" if rows and rows[0].get("e") == "Prog" else "Trace_Ops"
    r = T.validate(mod, mod + ".cfg", path)
    ctx.cov["states"] = max(1, r["res"]["distinct"]); ctx.cov["transitions"] = max(1, r["res"]["generated"])
    if not r["accepted"]:
        ctx.violation("replayed event rejected by " + mod, path)
