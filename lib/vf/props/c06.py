"""C06 - every fallback path still gives the emulation result.

1. TLC model-checks spec/ExecMem.tla: the chain of attempts for a region request with every
   system call a step that can fail; all fault plans with <= MaxFaults failing calls
   (by call number) over the init probe and the first compile; Balanced (nothing left
   behind by a failed attempt), SuccessIffMapped, NoWildSuccess, termination; two broken
   variants must be refuted.
2. Every fault plan TLC enumerated is replayed: one process per (plan, behaviour) with the
   --wrap shim failing exactly those calls, x ORC_CODE in {unset, backup, emulate} x
   with/without backup function x program with/without rules x attached / code-only
   executors; plus persistent faults (every call of a class fails from call k on) with a
   churn of 30 reset+compile+run rounds.
3. Verdicts by TLC trace validation: Trace_OrcSystem with the C06 conjuncts (every run gives
   the right result; the backup function is called exactly once when it is the entry
   point and never otherwise; native entry points only with code memory; no crash/hang),
   and Trace_ExecMem (descriptors used only while open and closed before the API call
   returns, failed attempts unmap what they mapped, no descriptor growth over the churn).
"""
import os, json
from ..common import *
from .. import orcsys as O
from .. import trace as T
from .c16 import report

WRAP = ("mkstemp", "ftruncate", "mmap", "munmap", "close")


def plans_from_model(ctx, ndirs, maxfaults):
    fn = os.path.join(ctx.work, "EM_%d_%d.cfg" % (ndirs, maxfaults))
    maxcalls = 2 * (4 * ndirs + 1)
    open(fn, "w").write("SPECIFICATION FairSpec\nCONSTANTS\n NDirs = %d\n MaxCalls = %d\n MaxFaults = %d\n Buggy = \"\"\n"
                        "INVARIANTS Balanced NoWildSuccess SuccessIffMapped DumpInv\nPROPERTY Terminates\n"
                        "CHECK_DEADLOCK FALSE\n" % (ndirs, maxcalls, maxfaults))
    res = tlc("ExecMem", fn, workers=4, timeout=1200, coverage=True)
    if not tlc_ok(res, "ExecMem"):
        rp = ctx.save_replay("execmem_model.txt", res["out"][-6000:])
        ctx.violation("ExecMem design model violates %s" % res["violated"], rp)
        return []
    ctx.add_model(res, "ExecMem_%ddirs_%dfaults" % (ndirs, maxfaults))
    for act in ("Mkstemp", "Ftruncate", "MmapExec", "MmapWrite", "MmapAnon"):
        # the anonymous fallback needs one fault per directory before it
        if res["coverage"].get(act, (0, 0))[1] == 0 and (act != "MmapAnon" or maxfaults >= ndirs):
            raise MachineryError("vacuous ExecMem model: %s never taken" % act)
    plans = []
    for l in res["out"].splitlines():
        if l.startswith('"PLAN '):
            plans.append(json.loads(json.loads(l)[5:]))
    return plans


def negatives(ctx):
    refuted = []
    for bug, inv in (("noclose-exec", "Balanced"), ("anon-null", "NoWildSuccess")):
        fn = os.path.join(ctx.work, "EM_neg_%s.cfg" % bug)
        open(fn, "w").write("SPECIFICATION Spec\nCONSTANTS\n NDirs = 1\n MaxCalls = 10\n MaxFaults = 2\n Buggy = \"%s\"\n"
                            "INVARIANTS Balanced NoWildSuccess SuccessIffMapped\nCHECK_DEADLOCK FALSE\n" % bug)
        r = tlc("ExecMem", fn, workers=2, timeout=300)
        if r["violated"] not in (inv, "SuccessIffMapped"):
            raise MachineryError("negative ExecMem variant %s not refuted (%s)" % (bug, r["violated"]))
        refuted.append("%s -> %s" % (bug, r["violated"]))
    ctx.cov["negative_models_refuted"] = refuted


def templates(quick):
    out = []
    for mode in ("jit", "backup", "emulate"):
        for shape in ("good", "norule"):
            for bk in (False, True):
                b = "backup 1 ;" if bk else ""
                out.append("%s|new 1 %s;%scompile 1 avx;run 1 ;take 1 1;freep 1 ;runc 1 ;freec 1 " % (mode, shape, b))
                out.append("%s|new 1 %s;%scompile 1 avx;run 1 ;reset 1 ;compile 1 sse;run 1 ;run 1 ;freep 1 " % (mode, shape, b))
    return out


def run(ctx):
    quick = ctx.quick
    binary = build_harness("h_api", "hook", extra_src=["shim.c"], out_name="h_fault", wrap=WRAP)
    negatives(ctx)
    jobs = []   # (label, env, unset_home, lines)
    tpl = templates(quick)
    for ndirs, mf in ((1, 2), (2, 1)) if quick else ((1, 2), (2, 2), (3, 1)):
        for p in plans_from_model(ctx, ndirs, mf):
            env = {"H_FAULTS": ",".join(map(str, p["plan"]))}
            jobs.append(("plan_%d_%s" % (ndirs, "-".join(map(str, p["plan"])) or "none"), env, ndirs, tpl))
    churn = []
    for mode in ("jit", "backup"):
        for bk in ("", "backup 1 ;"):
            churn.append("%s|new 1 good;%scompile 1 avx;run 1 ;churn 1 30;run 1 ;freep 1 " % (mode, bk))
    for cls in ("mkstemp", "ftruncate", "mmapx", "mmapw", "anon", "all"):
        for k in ((1, 5, 6, 9) if quick else (1, 2, 3, 4, 5, 6, 7, 8, 9, 10, 11)):
            for ndirs in (1, 2):
                jobs.append(("from_%d_%s_%d" % (ndirs, cls, k), {"H_FAULT_FROM": "%d:%s" % (k, cls)}, ndirs, churn))
    ctx.cov["fault_plans"] = len(jobs)
    ctx.sample({"plan": jobs[0][1], "behaviour": jobs[0][3][0]})
    ctx.sample({"plan": jobs[-1][1], "behaviour": jobs[-1][3][0]})
    os.makedirs("/tmp/h_c06", exist_ok=True)

    def one(a):
        i, (label, env, ndirs, lines) = a
        bf = os.path.join(ctx.work, "c06_%d.txt" % i)
        tf = os.path.join(ctx.work, "c06_trace_%d.ndjson" % i)
        open(bf, "w").write("\n".join(lines) + "\n")
        if os.path.exists(tf):
            os.unlink(tf)
        e = dict(env)
        e["ORC_VERIF_TRACE"] = tf
        unset = ["-u", "XDG_RUNTIME_DIR", "-u", "TMPDIR", "-u", "H_FAULTS", "-u", "H_FAULT_FROM"]
        if ndirs == 1:
            unset += ["-u", "HOME"]
        else:
            e["HOME"] = "/tmp/h_c06"
            if ndirs >= 3:
                e["TMPDIR"] = "/tmp/h_c06"
        args = ["env"] + unset + ["%s=%s" % kv for kv in e.items()] + [binary, "run", bf]
        rc, out = sh(args, timeout=900)
        if rc not in (0, 3):
            raise MachineryError("h_fault failed rc=%d: %s" % (rc, out[-1500:]))
        return (label, env, tf)

    results = parallel(one, list(enumerate(jobs)))
    # validate in a few large files (JVM start dominates otherwise)
    groups = chunks(results, NCPU)
    def val(a):
        gi, grp = a
        allf = os.path.join(ctx.work, "c06_all_%d.ndjson" % gi)
        owner = []
        with open(allf, "w") as f:
            for label, env, tf in grp:
                txt = open(tf).read()
                f.write(txt)
                owner += [label] * txt.count("\n")
        fails = O.validate(ctx, allf, ["C06"], "c06_%d" % gi)
        r2 = T.validate("Trace_ExecMem", "Trace_ExecMem.cfg", allf, timeout=1200)
        rows = read_ndjson(allf)
        k = 0
        while not r2["accepted"] and k < 6:
            k += 1
            s, e = T.segment_of(rows, r2["rejected_at"])
            bad = rows[min(r2["rejected_at"] - 1, len(rows) - 1)]
            fails.append((rows[s:e], bad, "system-call trace: " + r2["why"]))
            rows = rows[:s] + rows[e:]
            if not rows:
                break
            rest = os.path.join(ctx.work, "c06_rest_%d.ndjson" % gi)
            write_ndjson(rest, rows)
            r2 = T.validate("Trace_ExecMem", "Trace_ExecMem.cfg", rest, timeout=1200)
        return fails, [g[0] for g in grp]
    allfails = []
    for fails, labels in parallel(val, list(enumerate(groups))):
        allfails += fails
    report(ctx, allfails, "c06", "C06")
    ctx.cov["replayed_behaviours"] = sum(len(j[3]) for j in jobs)
    ctx.cov["exhaustive"] = True
    ctx.cov["rule"] = ("every fault plan (set of failing call numbers, size <= MaxFaults) of the ExecMem model for the "
                       "directory configurations listed in models, each replayed with 24 API behaviours; plus "
                       "persistent class faults with a 30-round churn")
    ctx.assumptions += ["the shim intercepts mkstemp/ftruncate/mmap/munmap/close made by liborc (static link, --wrap)",
                        "hang detection: 30 s alarm per child"]


def replay(ctx, path):
    fails = O.validate(ctx, path, ["C06"], "replay")
    r2 = T.validate("Trace_ExecMem", "Trace_ExecMem.cfg", path)
    ctx.cov["states"] = max(1, ctx.cov.get("trace_states", 1)); ctx.cov["transitions"] = ctx.cov["states"]
    for seg, bad, why in fails:
        ctx.violation("replayed trace rejected: %s at %s" % (why, json.dumps(bad)[:200]), path)
    if not r2["accepted"]:
        ctx.violation("replayed system-call trace rejected: " + r2["why"], path)
