"""C16 - object life cycle: every resource is released exactly once.

1. TLC model-checks spec/OrcSystem.tla (2 programs, 1-2 taken codes, all ORC_CODE modes):
   NoLeak (ghost heap = resources the visible state accounts for), NoUseAfterFree,
   TakenOutlives, plus the classification invariants.
2. Behaviours: every edge of the 1-program graph (shortest path each) + seeded TLC
   simulation of the 2-program model; replayed through the real API in fresh processes of
   the AddressSanitizer/LeakSanitizer build (harness/h_api).
3. Each recorded Api trace is validated by TLC against Trace_OrcSystem with the C16
   conjuncts on: legal-sequence guards, code/chunk ownership after every call, walker
   count of used chunks = chunks the specification says are held, LeakSanitizer verdict
   at the end, no crash (a sanitizer abort leaves a Crash event no action accepts).
4. Cyclic behaviours (TLC-generated, ending with an empty ghost heap) are repeated
   thousands of times on the plain hook build: heap in use and region count must not grow;
   once more with the backend override variable set and the named target replaced by the
   default target looked up through it (what the library allocates while reading its
   environment must be released too).
"""
import os, json
from ..common import *
from .. import orcsys as O


def report(ctx, fails, label, prop_focus):
    for i, (seg, bad, why) in enumerate(fails[:5]):
        mode, ops = O.seg_signature(seg)
        rp = ctx.save_replay("%s_%d.ndjson" % (label, i), "\n".join(json.dumps(x) for x in seg) + "\n")
        sig = dict(mode=mode, last_op=(bad.get("op") if bad.get("e") == "Api" else bad.get("e")), why=why)
        k = ctx.match_known(sig)
        if k:
            ctx.known_finding(k["key"], k["what"])
            continue
        ctx.violation("%s; behaviour: %s|%s; at event %s" % (why, mode, ";".join(ops)[:400],
                                                             json.dumps(bad)[:300]), rp)


def cycles(ctx, behs, iters, env=None, label=""):
    """behaviours ending with everything freed, repeated: heap/regions must not grow"""
    binary = build_harness("h_api", "hook")
    cyc = [(m, ops) for m, empty, ops in behs if empty and len(ops) >= 4][: (12 if ctx.quick else 60)]
    def one(a):
        m, ops = a
        line = ";".join("%s %d %s" % (o["op"], o["p"], o["a"]) for o in ops)
        if env and "ORC_BACKEND" in env:
            # the default target, looked up through the override variable, instead of the named one
            line = line.replace(" %s/" % env["ORC_BACKEND"], " default/")
        rc, out = sh([binary, "cycle", m, str(iters), line], timeout=900,
                     env=dict({"ORC_VERIF_TRACE": ""}, **(env or {})))
        if rc != 0:
            return (a, None, out[-500:])
        try:
            return (a, json.loads(out.strip().splitlines()[-1]), "")
        except Exception:
            return (a, None, out[-500:])
    n = 0
    for (m, ops), r, err in parallel(one, cyc):
        line = m + "|" + ";".join("%s %d %s" % (o["op"], o["p"], o["a"]) for o in ops)
        if r is None:
            rp = ctx.save_replay("cycle_crash_%d.txt" % n, line + "\n" + err)
            ctx.violation("cyclic behaviour crashed: " + line[:300], rp)
            continue
        if r.get("stopped"):
            continue       # the model mispredicted a compile class: not a cycle of the real system
        n += 1
        grow = r["heap_end"] - r["heap_at_50pct"]
        if grow > 4096 or r["nreg_end"] > r["nreg_at_20pct"] or r["used_end"] != 0:
            rp = ctx.save_replay("cycle_%d.txt" % n, line + "\n" + json.dumps(r))
            ctx.violation("resources grow with iterations: %s (%s)" % (json.dumps(r), line[:300]), rp)
    ctx.cov["cyclic_behaviours" + label] = n
    ctx.cov["cycle_iterations"] = iters


def run(ctx):
    quick = ctx.quick
    # 1. design-level model
    cfg = O.write_cfg(ctx, "OS_mc", 2, 1 if quick else 2, ("avx", "sse", "null"), ("jit", "backup", "emulate"))
    res = tlc("OrcSystem", cfg, workers=8, timeout=3000, heap="8g", coverage=quick)
    if not tlc_ok(res, "OrcSystem"):
        rp = ctx.save_replay("model.txt", res["out"][-8000:])
        ctx.violation("design-level model violates %s" % res["violated"], rp)
        return
    ctx.add_model(res, "OrcSystem")
    if quick:
        for act, c in res["coverage"].items():
            if act in ("New", "BadAppend", "Spoil", "SetBackup", "Compile", "TakeCode", "Reset", "FreeProg",
                       "FreeCode", "Run", "RunCode") and c[1] == 0:
                raise MachineryError("vacuous model: action %s never taken" % act)
    # 2. behaviours
    edges, r1 = O.gen_edges(ctx)
    behs = O.maximal(edges)
    sims, r2 = O.gen_sim(ctx, 800 if quick else 12000, 14, seed=ctx.seed)
    ctx.cov["edges_1prog"] = len(edges)
    ctx.cov["maximal_behaviours_1prog"] = len(behs)
    ctx.cov["simulated_behaviours_2prog"] = len(sims)
    if quick and len(behs) > 60000:
        ctx.rng.shuffle(behs)
        behs = behs[:60000]
    allb = behs + sims
    lines = [O.render(m, ops) for m, e, ops in allb]
    ctx.sample(lines[0]); ctx.sample(lines[-1])
    # 3. replay under ASan/LSan, validate
    tfs = O.replay(ctx, "asan", lines, "c16")
    fl = parallel(lambda a: O.validate(ctx, a[1], ["C16"], "c16_%d" % a[0]), list(enumerate(tfs)))
    fails = [f for x in fl for f in x]
    report(ctx, fails, "c16", "C16")
    ctx.cov["replayed_behaviours"] = len(lines)
    # 4. growth over long loops
    cycles(ctx, edges + sims, 3000 if quick else 20000)
    cycles(ctx, edges + sims, 3000 if quick else 20000, env={"ORC_BACKEND": "avx"}, label="_with_override")
    ctx.cov["exhaustive"] = True
    ctx.cov["rule"] = ("TLC enumerates OrcSystem (constants in models.OrcSystem) exhaustively; replayed "
                       "behaviours = maximal shortest paths covering every edge of the 1-program graph "
                       "(seeded sample in the quick tier) + seeded TLC simulations of the 2-program model; "
                       "one trace per behaviour, validated against Trace_OrcSystem")
    ctx.assumptions += ["ASan/LSan are observers inside the replay (a report ends the child: Crash event)",
                        "mallinfo2().uordblks growth <= 4 KiB between 50% and 100% of the iterations"]


def replay(ctx, path):
    fails = O.validate(ctx, path, ["C16"], "replay")
    ctx.cov["states"] = max(1, ctx.cov.get("trace_states", 1)); ctx.cov["transitions"] = ctx.cov["states"]
    for seg, bad, why in fails:
        ctx.violation("replayed trace rejected: %s at %s" % (why, json.dumps(bad)[:200]), path)
