"""C07 - what orcc generates works end to end through its C prototype.

Programs come from the same descriptions C01 uses (eight templates, seeded opcode choices,
1/2/4/8-byte elements, x2/x4, constants, int / 64-bit parameters, accumulators, 1-D and 2-D)
plus marshalling programs for float and double parameters and a constant-n program; the
description is rendered to .orc text (well-formed per spec/OrcText.tla's line kinds), tools/orcc
(built from the current tree) turns it into implementation and header in every mode
(default lazy init, --init-function eager init, --inline, --compat 0.4.11, --no-backup), gcc
compiles them - against the library, and with -DDISABLE_ORC without it - and a generated driver
calls every function through its C prototype (array pointers, per-array strides, parameters of
each C type, n, m, accumulator out-pointers) in every run-time mode (JIT, ORC_CODE=backup,
ORC_CODE=emulate, Orc-free).  harness/orcc_rt.c records inputs and outputs as Prog events and
TLC validates every element against the program semantics (OrcProg, Trace_Prog).  orc_memcpy
and orc_memset are called for every length 0..300 and every pair of alignments 0..15 and
validated as the programs "copyb d1, s1" / "copyb d1, p1".
"""
import os, json, re
from ..common import *
from .. import trace as T
from .. import genops
from . import c01, c02

D1, D2, S1, S2, A1, C1, P1, T1, T2 = 0, 1, 4, 5, 12, 16, 24, 32, 33
NAMES = {0: "d1", 1: "d2", 2: "d3", 3: "d4", 4: "s1", 5: "s2", 6: "s3", 7: "s4", 8: "s5", 9: "s6", 10: "s7", 11: "s8",
         12: "a1", 16: "c1", 24: "p1", 32: "t1", 33: "t2"}


def copyop(w):
    return {1: "copyb", 2: "copyw", 4: "copyl", 8: "copyq"}[w]


def describe(tpl, w, o1, o2, o3):
    """the instruction list of harness/h_prog.c:describe, as (op, [dests], [srcs])"""
    c = copyop(w)
    return {
        "chain": [(o1, [T1], [S1, S2]), (o2, [D1], [T1, S2])],
        "live": [(c, [T1], [S1]), (o1, [D1], [T1, S2]), (c, [D2], [T1])],
        # orcc's parser rejects a destination written twice: the in-place destination is read, then written once
        "inplace": [(o1, [T1], [D1, S1]), (o2, [D1], [T1, C1])],
        "repeat": [(o1, [T1], [S1, S1]), (o2, [D1], [T1, T1])],
        "three": [(o1, [T1], [S1, S2]), (o2, [T2], [S1, T1]), (o3, [D1], [T2, T1])],
        "param": [(o1, [T1], [S1, P1]), (o2, [D1], [T1, C1])],
        "acc": [(o1, [T1], [S1, S2]), (c, [D1], [T1]), ("accw" if w == 2 else "accl", [A1], [T1])],
        "rewrite": [(o1, [T1], [S1, S2]), (o2, [T1], [T1, S1]), (o3, [T1], [T1, S2]), (c, [D1], [T1])],
    }[tpl]


class Fn:
    pass


def make_fn(k, tpl, w, o1, o2, o3, mult, seed, opinfo, rng, ptype=0, const_n=0, insns=None):
    f = Fn()
    f.name = "c07_f%d" % k
    f.tpl, f.w, f.mult, f.seed = tpl, w, mult, seed
    f.two_d = seed & 1
    f.const_n = const_n
    f.insns = insns or describe(tpl, w, o1, o2, o3)
    f.ptype = ptype
    e = w * mult
    slots = []
    for op, ds, ss in f.insns:
        for s in ds + ss:
            if s not in slots:
                slots.append(s)
    # keep slot numbering: a later variable of a class needs the earlier ones
    if D2 in slots and D1 not in slots: slots.append(D1)
    if S2 in slots and S1 not in slots: slots.append(S1)
    if T2 in slots and T1 not in slots: slots.append(T1)
    order = [0, 1, 2, 3, 4, 5, 6, 7, 8, 9, 10, 11, A1, C1, P1, T1, T2]
    f.vars = []
    scalar = any("SCALAR" in opinfo[op]["flags"] for op, _, _ in f.insns)
    for s in order:
        if s not in slots:
            continue
        kind = "d" if s < 4 else "s" if s < 12 else "a" if s < 16 else "c" if s < 24 else "p" if s < 32 else "t"
        size = w if kind in "cpa" else e
        f.vars.append((s, kind, size))
    cv = rng.choice([0, 1, 2, 0x7f, 0x80, 0xff, 0x100, 0x7fff, 0x8000, 0xffff, 0x7fffffff, 0x80000000, 0xffffffff,
                     0x0123456789abcdef, 0xfedcba9876543210, rng.getrandbits(64)])
    cv &= (1 << (8 * w)) - 1
    if scalar:
        cv %= 8 * w
    f.cval = cv
    f.pmod = 8 * w if scalar else 0
    return f


def orc_text(fns):
    L = []
    for f in fns:
        L.append(".function %s" % f.name)
        if f.two_d:
            L.append(".flags 2d")
        if f.const_n:
            L.append(".n %d" % f.const_n)
        for s, kind, size in f.vars:
            nm = NAMES[s]
            if kind == "d": L.append(".dest %d %s" % (size, nm))
            elif kind == "s": L.append(".source %d %s" % (size, nm))
            elif kind == "a": L.append(".accumulator %d %s" % (size, nm))
            elif kind == "t": L.append(".temp %d %s" % (size, nm))
            elif kind == "c":
                L.append((".const %d %s 0x%x" if size <= 4 else ".const %d %s 0x%xL") % (size, nm, f.cval))
            elif kind == "p":
                d = {0: ".param", 1: ".floatparam", 2: ".longparam", 3: ".doubleparam"}[f.ptype if f.ptype else (2 if size == 8 else 0)]
                L.append("%s %d %s" % (d, size, nm))
        pre = {1: "", 2: "x2 ", 4: "x4 "}[f.mult]
        for op, ds, ss in f.insns:
            acc = op.startswith("acc")
            L.append("%s%s %s" % ("" if acc else pre, op, ", ".join(NAMES[s] for s in ds + ss)))
        L.append("")
    return "\n".join(L) + "\n"


def driver_c(fns, opinfo, header):
    L = ['#include "%s"' % header, '#include "orcc_rt.h"', ""]
    for f in fns:
        args = []
        for s, kind, size in f.vars:
            if kind == "d":
                args.append("(void *) c->arr[%d]" % s)
                if f.two_d: args.append("c->stride[%d]" % s)
        for s, kind, size in f.vars:
            if kind == "a":
                args.append("(void *) &c->acc[%d]" % (s - 12))
        for s, kind, size in f.vars:
            if kind == "s":
                args.append("(const void *) c->arr[%d]" % s)
                if f.two_d: args.append("c->stride[%d]" % s)
        for s, kind, size in f.vars:
            if kind == "p":
                pt = f.ptype if f.ptype else (2 if size == 8 else 0)
                args.append({0: "(int) c->pi[%d]", 1: "c->pf[%d]", 2: "(orc_int64) c->pi[%d]", 3: "c->pd[%d]"}[pt] % (s - 24))
        if not f.const_n:
            args.append("c->n")
        if f.two_d:
            args.append("c->m")
        L.append("static void call_%s (C07Ctx *c) { %s (%s); }" % (f.name, f.name, ", ".join(args)))
    L.append("const C07Fn c07_fns[] = {")
    for f in fns:
        vj = json.dumps([[s, kind, size] for s, kind, size in f.vars], separators=(",", ":"))
        ij = json.dumps([[op, (1 if op.startswith("acc") else f.mult), ds, ss, opinfo[op]["src"][0],
                          (opinfo[op]["src"][1] if len(opinfo[op]["src"]) > 1 else 0)] for op, ds, ss in f.insns], separators=(",", ":"))
        cj = ",".join("[%d,[%s]]" % (s, ",".join(str((f.cval >> (8 * i)) & 255) for i in range(size)))
                      for s, kind, size in f.vars if kind == "c")
        cs = lambda x: '"' + x.replace('"', '\\"') + '"'
        vs = ", ".join("{%d,'%s',%d,%d,%d}" % (s, kind, size, (f.ptype if f.ptype else (2 if size == 8 else 0)) if kind == "p" else 0,
                                                 f.pmod if kind == "p" else 0) for s, kind, size in f.vars)
        L.append("  { %s, %s, %s, %s, %s, %d, %d, %d, %d, %d, %d, { %s }, call_%s, %dUL }," % (
            cs(f.name), cs(f.tpl), cs(vj), cs(ij), cs(cj), f.w, f.mult, 1 if f.two_d else 0, f.const_n, 6, len(f.vars), vs, f.name, f.seed))
    L.append("};")
    L.append("const int c07_nfns = %d;" % len(fns))
    return "\n".join(L) + "\n"


MEM_DRIVER = r'''
#include <stdio.h>
#include <stdlib.h>
#include <string.h>
#include <stdint.h>
#include <orc/orc.h>
#include <orc/orcfunctions.h>
static void bytes (FILE *o, const uint8_t *p, int n) { int i; fputc ('[', o); for (i = 0; i < n; i++) fprintf (o, i ? ",%d" : "%d", p[i]); fputc (']', o); }
int main (void) {
  static uint8_t S[1024], D[1024];
  FILE *o = fopen (getenv ("ORC_VERIF_TRACE"), "a");
  int len, da, sa, q = 0, i, step = getenv ("C07_MEM_STEP") ? atoi (getenv ("C07_MEM_STEP")) : 1;
  orc_init ();
  fprintf (o, "{\"q\":%d,\"t\":0,\"e\":\"Reset\"}\n", ++q);
  for (len = 0; len <= 300; len += (len < 70 ? 1 : step)) for (da = 0; da < 16; da += (len < 40 ? 1 : 3)) for (sa = 0; sa < 16; sa += (len < 40 ? 1 : 5)) {
    int which;
    for (which = 0; which < 2; which++) {
      int fence = 1, val = (len * 7 + da) & 255;
      for (i = 0; i < 1024; i++) { S[i] = (uint8_t) (i * 31 + len + sa); D[i] = 0xa5; }
      if (which == 0) orc_memcpy (D + 64 + da, S + 64 + sa, len); else orc_memset (D + 64 + da, val, len);
      for (i = 0; i < 1024; i++) if ((i < 64 + da || i >= 64 + da + len) && D[i] != 0xa5) fence = 0;
      fprintf (o, "{\"q\":%d,\"t\":0,\"e\":\"Prog\",\"path\":\"lib\",\"fn\":\"%s\",\"tpl\":\"%s\",\"n\":%d,\"m\":1,\"off\":%d,\"stride\":%d,"
          "\"vars\":[[0,\"d\",1],[%d,\"%s\",1]],\"insns\":[[\"copyb\",1,[0],[%d],1,0]],\"consts\":[%s",
          ++q, which ? "orc_memset" : "orc_memcpy", which ? "memset" : "memcpy", len, da, len, which ? 24 : 4, which ? "p" : "s", which ? 24 : 4, "");
      if (which) fprintf (o, "[24,[%d]]", val);
      { static uint8_t A5[1024]; memset (A5, 0xa5, sizeof (A5)); fprintf (o, "],\"ins\":[[0,["); bytes (o, A5, len); fprintf (o, "]]"); }
      if (!which) { fprintf (o, ",[4,["); bytes (o, S + 64 + sa, len); fprintf (o, "]]"); }
      fprintf (o, "],\"outs\":[[0,["); bytes (o, D + 64 + da, len); fprintf (o, "]]],\"accs\":[],\"fence\":%d}\n", fence);
    }
  }
  fprintf (o, "{\"q\":%d,\"t\":0,\"e\":\"End\",\"leak\":0}\n", ++q);
  fclose (o);
  return 0;
}
'''


def tolerant_rows(fn):
    rows = []
    for l in open(fn):
        l = l.strip()
        if not l:
            continue
        try:
            rows.append(json.loads(l))
        except ValueError:
            pass            # the partial line of a call that died; a Died event follows
    return rows


def run(ctx):
    quick = ctx.quick
    ops_all = genops.write()
    opinfo = {o["name"]: o for o in ops_all}
    plines = c01.prog_plan(ops_all, ctx.rng, 64 if quick else 400)
    fns = []
    k = 0
    for l in plines:
        tpl, w, o1, o2, o3, mult, seed = l.split()
        k += 1
        fns.append(make_fn(k, tpl, int(w), o1, o2, o3, int(mult), int(seed), opinfo, ctx.rng))
    # marshalling of each C parameter type, a constant-n program, a 2-D accumulator
    extra = [("fparam", 4, [("orf", [D1], [S1, P1])], 1, 0, 2), ("dparam", 8, [("orq", [D1], [S1, P1])], 3, 0, 3),
             ("lparam", 8, [("addq", [D1], [S1, P1])], 2, 0, 5), ("iparam", 4, [("subl", [D1], [S1, P1])], 0, 0, 7),
             ("iparam2d", 2, [("addw", [D1], [S1, P1])], 0, 0, 9), ("constn", 2, [("addw", [D1], [S1, S2])], 0, 8, 4),
             ("acc2d", 2, [("copyw", [T1], [S1]), ("accw", [A1], [T1]), ("copyw", [D1], [T1])], 0, 0, 11),
             ("fparam2d", 4, [("andf", [D1], [S1, P1])], 1, 0, 13)]
    # four destinations and eight sources: the pointers occupy every callee-saved general register (C10 checks that
    # they are preserved; here the values computed through them are checked)
    many = [("addw", [0], [4, 5]), ("xorw", [1], [6, 7]), ("subw", [2], [8, 9]), ("maxsw", [3], [10, 11])]
    extra.append(("manyarr", 2, many, 0, 0, 20))
    extra.append(("manyarr2d", 2, many, 0, 0, 21))
    extra.append(("manyarr4", 4, [("addl", [0], [4, 5]), ("xorl", [1], [6, 7]), ("subl", [2], [8, 9]), ("mulll", [3], [10, 11])], 0, 0, 23))
    # constant-n programs (the loop is laid out for exactly n elements): lengths around the vector widths
    for cn, w, op in ((1, 1, "addb"), (3, 2, "subw"), (7, 1, "avgub"), (16, 1, "addusb"), (17, 2, "mullw"), (31, 4, "addl"),
                      (33, 1, "xorb"), (64, 2, "addssw"), (65, 1, "maxub"), (100, 4, "subl"), (128, 1, "addb"), (255, 1, "subb")):
        extra.append(("constn%d" % cn, w, [(op, [D1], [S1, S2])], 0, cn, 2 * cn))
    for tpl, w, insns, ptype, cn, seed in extra:
        k += 1
        fns.append(make_fn(k, tpl, w, None, None, None, 1, seed, opinfo, ctx.rng, ptype=ptype, const_n=cn, insns=insns))
    ctx.cov["functions"] = len(fns)
    ctx.sample(plines[0]); ctx.sample("fparam: orf d1, s1, p1 (.floatparam)")
    W = ctx.work
    orcf = os.path.join(W, "c07.orc")
    open(orcf, "w").write(orc_text(fns))
    libdir = build_lib("plain")
    cfg = os.path.join(BUILD, "cfg")
    orcc = os.path.join(W, "orcc")
    rc, o = sh("gcc -O1 -DHAVE_CONFIG_H -I%s -I%s -o %s %s/tools/orcc.c %s/liborc.a %s/liborctest.a -lm -lpthread"
               % (REPO, cfg, orcc, REPO, libdir, libdir), timeout=600)
    if rc != 0:
        raise MachineryError("building orcc failed: " + o[-2000:])
    variants = [("lazy", [], None), ("eager", ["--init-function", "c07_init"], "c07_init"), ("inline", ["--inline"], None),
                ("compat", ["--compat", "0.4.11"], None), ("nobackup", ["--no-backup"], None)]
    builds = []          # (label, binary, env)
    n = 0
    for vname, vflags, initf in variants:
        d = os.path.join(W, "v_" + vname)
        os.makedirs(d, exist_ok=True)
        imp, hdr = os.path.join(d, "c07impl.c"), os.path.join(d, "c07impl.h")
        ok = True
        for mode, outf in (("--implementation", imp), ("--header", hdr)):
            rc, o = sh([orcc] + vflags + [mode, "-o", outf, orcf], timeout=300)
            if rc != 0:
                n += 1
                rp = ctx.save_replay("orcc_%s.txt" % vname, "orcc %s %s\n%s\n--- input\n%s" % (" ".join(vflags), mode, o[-3000:], open(orcf).read()))
                ctx.violation("C07: orcc %s %s fails on a well-formed .orc file: %s" % (" ".join(vflags), mode, o[-300:]), rp)
                ok = False
        if not ok:
            continue
        drv = os.path.join(d, "driver.c")
        open(drv, "w").write(driver_c(fns, opinfo, "c07impl.h"))
        targets = [("jit", "", [os.path.join(libdir, "liborc.a")])]
        if vname == "lazy":
            targets.append(("noorc", "-DDISABLE_ORC", []))
        for tname, defs, libs in targets:
            exe = os.path.join(d, "run_" + tname)
            cmd = "gcc -O2 -w %s %s -I%s -I%s -I%s -I%s -o %s %s %s %s %s -lm -lpthread" % (
                defs, ("-DC07_INIT=" + initf) if initf else "", d, HARNESS, REPO, cfg, exe, imp, drv,
                os.path.join(HARNESS, "orcc_rt.c"), " ".join(libs))
            rc, o = sh(cmd, timeout=900)
            if rc != 0:
                n += 1
                rp = ctx.save_replay("gcc_%s_%s.txt" % (vname, tname), cmd + "\n" + o[-4000:])
                ctx.violation("C07: the code orcc generates (%s, %s) does not compile: %s" % (vname, tname, o[-400:]), rp)
                continue
            if tname == "noorc":
                builds.append(("%s-noorc" % vname, exe, {}))
            else:
                builds.append(("%s-jit" % vname, exe, {}))
                if vname in ("lazy", "eager", "nobackup") or not quick:
                    builds.append(("%s-backup" % vname, exe, {"ORC_CODE": "backup"}))
                    builds.append(("%s-emulate" % vname, exe, {"ORC_CODE": "emulate"}))
    # orc_memcpy / orc_memset
    memsrc = os.path.join(W, "memdrv.c")
    open(memsrc, "w").write(MEM_DRIVER)
    memexe = os.path.join(W, "memdrv")
    rc, o = sh("gcc -O1 -w -DHAVE_CONFIG_H -I%s -I%s -o %s %s %s/liborc.a -lm -lpthread" % (REPO, cfg, memexe, memsrc, libdir), timeout=600)
    if rc != 0:
        raise MachineryError("building the memcpy driver failed: " + o[-2000:])
    for label, env in (("mem-jit", {}), ("mem-backup", {"ORC_CODE": "backup"}), ("mem-emulate", {"ORC_CODE": "emulate"})):
        builds.append((label, memexe, dict(env, C07_MEM_STEP="1" if not quick else "7")))
    def one(a):
        label, exe, env = a
        tf = os.path.join(W, "c07_%s.ndjson" % label)
        if os.path.exists(tf):
            os.unlink(tf)
        e = dict(env); e["ORC_VERIF_TRACE"] = tf
        rc, o = sh([exe, label], timeout=1500, env=e)
        if rc != 0:
            raise MachineryError("driver %s failed rc=%d %s" % (label, rc, o[-600:]))
        rows = tolerant_rows(tf)
        write_ndjson(tf, rows)
        return label, tf
    traces = parallel(one, builds)
    def val(a):
        label, tf = a
        rows = read_ndjson(tf)
        bad, g = [], 0
        try:
            r = T.validate("Trace_Prog", "Trace_Prog.cfg", tf, timeout=3000, heap="6g")
        except MachineryError as ex:
            # the events themselves are malformed (fields missing, values out of range): a called function damaged the
            # driver's own state (registers or memory it relies on) - the call did not work end to end
            first = next((x for x in rows if x.get("e") == "Prog"), {})
            return label, [dict(e="Corrupt", fn=first.get("fn"), tpl="?", insns=[], why=str(ex)[-300:])], 0, [0, 0], 0, []
        st = [r["res"]["distinct"], r["res"]["generated"]]
        elems = 0
        while True:
            if r["accepted"]:
                m = re.search(r'"ELEMENTS", (\d+)', r["res"]["out"])
                elems += int(m.group(1)) if m else 0
                break
            g += 1
            ev = rows[r["rejected_at"] - 1]
            bad.append(ev)
            rows = [x for x in rows[r["rejected_at"]:] if x.get("fn") != ev.get("fn") or (ev.get("tpl") in ("memcpy", "memset") and x.get("n") != ev.get("n"))]
            if not rows or g > 40:
                break
            write_ndjson(tf + ".rest", rows)
            r = T.validate("Trace_Prog", "Trace_Prog.cfg", tf + ".rest", timeout=3000, heap="6g")
        allr = read_ndjson(tf)
        return label, bad, elems, st, sum(1 for x in allr if x["e"] == "Prog"), [x for x in allr if x["e"] == "Died"]
    seen = set()
    byname = {f.name: f for f in fns}
    for label, bad, elems, st, runs, died in parallel(val, traces):
        ctx.cov["elements_validated"] = ctx.cov.get("elements_validated", 0) + elems
        ctx.cov["traces_validated_against_impl"] += runs
        ctx.cov["states"] += st[0]; ctx.cov["transitions"] += st[1]
        for ev in died:
            n += 1
            f = byname.get(ev.get("plan"))
            rp = ctx.save_replay("died_%d.orc" % n, orc_text([f]) if f else json.dumps(ev))
            ctx.violation("C07: calling %s (%s) in mode %s died with signal %s" % (ev.get("plan"), f.tpl if f else "?", label, ev.get("sig")), rp)
        for ev in bad:
            key = (ev.get("fn"), label)
            if key in seen:
                continue
            seen.add(key)
            n += 1
            f = byname.get(ev.get("fn"))
            rp = ctx.save_replay("prog_%d.ndjson" % n, json.dumps(ev) + "\n")
            if ev.get("e") == "Corrupt":
                ctx.violation("C07: the events recorded in mode %s are malformed - a generated function damaged the state of "
                              "the driver that called it (callee-saved registers or memory): %s" % (label, ev.get("why", "")[-200:]), rp)
                continue
            ctx.violation("C07: %s (%s; %s) called through its prototype in mode %s computes other bytes than the program "
                          "semantics (n=%s m=%s off=%s fence=%s)" % (ev.get("fn"), ev.get("tpl"), json.dumps(ev.get("insns")),
                                                                      label, ev.get("n"), ev.get("m"), ev.get("off"), ev.get("fence")), rp)
    ctx.cov["modes"] = [b[0] for b in builds]
    ctx.cov["exhaustive"] = False
    ctx.cov["rule"] = ("%d generated functions (8 templates + parameter-type, constant-n, 2-D accumulator programs) x orcc "
                       "{lazy, eager init, --inline, --compat, --no-backup} x {JIT, ORC_CODE=backup, ORC_CODE=emulate, "
                       "DISABLE_ORC} x 6 calls each; orc_memcpy/orc_memset for len 0..300 x alignments" % len(fns))
    ctx.assumptions += ["float opcodes inside orcc-generated code are C18's / C04's; here float and double parameters are "
                        "marshalled into bitwise opcodes", "the corpus testsuite/test.orc is exercised by the repository's own tests"]


def replay(ctx, path):
    if path.endswith(".ndjson"):
        r = T.validate("Trace_Prog", "Trace_Prog.cfg", path)
        ctx.cov["states"] = max(1, r["res"]["distinct"]); ctx.cov["transitions"] = max(1, r["res"]["generated"])
        if not r["accepted"]:
            ctx.violation("replayed event rejected by Trace_Prog", path)
