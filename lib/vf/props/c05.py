"""C05 - compilation always terminates, classifies its result, never corrupts memory.

A. Result classes: OrcSystem's CompileOutcome (exits E0..E9) with the invariants
   FatalNoCode / SuccessCallable / OtherRunnable model-checked by TLC over all histories;
   behaviours replayed through the real API (ASan build) and the recorded traces validated
   with the C05 conjuncts on (the class observed after every compile fixes the post-state).
B. Capacities: spec/CompilerTables.tla models how program construction and the compiler's
   rewrite passes fill the fixed tables (insns[100], vars[96], temporaries, code buffer);
   TLC yields boundary programs (below / at / above each capacity); each is built through
   the public API and compiled for every registered target in a child of the ASan/UBSan
   build under a watchdog.  Verdict: returns in time, no sanitizer report, class/post-state
   consistent (validated as Compile events against Trace_CompilerTables).
"""
import os, json
from ..common import *
from .. import orcsys as O
from .. import trace as T
from .c16 import report


def classes(ctx):
    quick = ctx.quick
    cfg = O.write_cfg(ctx, "OS_mc", 2, 1, ("avx", "sse", "null"), ("jit", "backup", "emulate"))
    res = tlc("OrcSystem", cfg, workers=8, timeout=3000, heap="8g")
    if not tlc_ok(res, "OrcSystem"):
        rp = ctx.save_replay("model.txt", res["out"][-8000:])
        ctx.violation("design-level model violates %s" % res["violated"], rp)
        return
    ctx.add_model(res, "OrcSystem")
    # non-vacuity: the variant that returns early without dropping the old code must be refuted
    cfgn = O.write_cfg(ctx, "OS_neg", 1, 1, ("avx", "null"), ("jit",), e0keeps=True)
    neg = tlc("OrcSystem", cfgn, workers=2, timeout=600)
    if neg["violated"] != "FatalNoCode":
        raise MachineryError("negative model (E0KeepsCode) not refuted by FatalNoCode: %s" % neg["violated"])
    ctx.cov["negative_models_refuted"] = ["E0KeepsCode -> FatalNoCode"]
    # C16 replays the full edge set; here: the behaviours that end in a compile
    edges, r1 = O.gen_edges(ctx, targets=("avx", "null") if quick else ("avx", "sse", "null"))
    behs = [b for b in O.maximal(edges) if b[2][-1]["op"] == "compile"]
    sims, r2 = O.gen_sim(ctx, 300 if quick else 8000, 14, seed=ctx.seed)
    ctx.cov["maximal_behaviours_1prog"] = len(behs)
    lines = [O.render(m, ops) for m, e, ops in behs + sims]
    ctx.sample(lines[0])
    tfs = O.replay(ctx, "asan", lines, "c05")
    fl = parallel(lambda a: O.validate(ctx, a[1], ["C05"], "c05_%d" % a[0]), list(enumerate(tfs)))
    report(ctx, [f for x in fl for f in x], "c05cls", "C05")
    ctx.cov["replayed_behaviours"] = len(lines)


def boundary_programs(ctx):
    """TLC: CompilerTables with the capacity checks must hold; without them it must be refuted;
    the reachable boundary programs are the stimulus"""
    quick = ctx.quick
    def cfg(name, checks, runs, near):
        fn = os.path.join(ctx.work, name + ".cfg")
        open(fn, "w").write("SPECIFICATION Spec\nCONSTANTS\n NInsns = 100\n NVarSlots = 64\n MaxProgTemps = 16\n"
                            " MaxConsts = 16\n MaxLen = 103\n MaxRuns = %d\n Checks = %s\n DumpNear = %d\n"
                            "INVARIANTS InBounds DumpInv\nCHECK_DEADLOCK FALSE\n" % (runs, checks, near))
        return fn
    res = tlc("CompilerTables", cfg("CT_pos", "TRUE", 2 if quick else 3, 1), workers=8, timeout=1500, heap="8g")
    if not tlc_ok(res, "CompilerTables"):
        rp = ctx.save_replay("tables_model.txt", res["out"][-6000:])
        ctx.violation("CompilerTables (with capacity checks) violates %s" % res["violated"], rp)
        return []
    ctx.add_model(res, "CompilerTables")
    neg = tlc("CompilerTables", cfg("CT_neg", "FALSE", 1, 0), workers=2, timeout=600)
    if neg["violated"] != "InBounds":
        raise MachineryError("CompilerTables without checks not refuted (%s)" % neg["violated"])
    ctx.cov["negative_models_refuted"] = ctx.cov.get("negative_models_refuted", []) + ["no capacity checks -> InBounds"]
    progs = []
    for l in res["out"].splitlines():
        if l.startswith('"PROG '):
            d = json.loads(json.loads(l)[5:])
            progs.append(d)
    return progs


def const_pool(ctx):
    """spec/ConstPool.tla: the pool of rule constants never indexed beyond its capacity, a full pool answers
    with the requested value.  Model-checked with the two pinned-code variants refuted; then the pool hook
    events of real compiles (programs asking for 10..34 different pooled values, every x86 target) are
    validated against it (Trace_ConstPool, InBounds with Cap = ORC_N_CONSTANTS)."""
    res = tlc("ConstPool", "MC_ConstPool.cfg", workers=8, timeout=900)
    if not tlc_ok(res, "ConstPool"):
        rp = ctx.save_replay("constpool_model.txt", res["out"][-6000:])
        ctx.violation("ConstPool (capacity test, requested value loaded) violates %s" % res["violated"], rp)
        return
    ctx.add_model(res, "ConstPool")
    for cfg, inv, name in (("MC_ConstPool_nocheck.cfg", "InBounds", "no capacity test -> InBounds"),
                           ("MC_ConstPool_loadslast.cfg", "RightValue", "long value loaded from the last entry -> RightValue"),
                           ("MC_ConstPool_reach.cfg", "FullReachable", "a full pool is reachable in the first pass")):
        neg = tlc("ConstPool", cfg, workers=2, timeout=300)
        if neg["violated"] != inv:
            raise MachineryError("ConstPool %s: expected %s to be refuted, got %s" % (cfg, inv, neg["violated"]))
        ctx.cov["negative_models_refuted"] = ctx.cov.get("negative_models_refuted", []) + [name]
    binary = build_harness("h_compile", "asan")
    ks = list(range(10, 35))
    def one(a):
        i, kk = a
        bf = os.path.join(ctx.work, "pool_%d.txt" % i)
        tf = os.path.join(ctx.work, "pool_trace_%d.ndjson" % i)
        open(bf, "w").write("".join("K pool_%d %d\n" % (k, k) for k in kk))
        if os.path.exists(tf):
            os.unlink(tf)
        rc, out = sh([binary, bf, "mmx,sse,avx"], timeout=1200,
                     env={"ORC_VERIF_TRACE": tf, "ORC_VERIF_POOL": "1", "ASAN_OPTIONS": "exitcode=99:detect_leaks=0",
                          "H_WATCHDOG": "20", "H_BATCH": "1"})
        if rc not in (0, 3):
            raise MachineryError("h_compile (pool) failed rc=%d: %s" % (rc, out[-2000:]))
        return tf
    tfs = parallel(one, list(enumerate(chunks(ks, 5))))
    nev = nfull = 0
    maxn = 0
    for i, tf in enumerate(tfs):
        rows = read_ndjson(tf)
        ev = [r for r in rows if r["e"] == "Const"]
        nev += len(ev)
        nfull += sum(1 for r in ev if r["idx"] == -1)
        maxn = max([maxn] + [r["n"] for r in ev])
        died = [r for r in rows if r["e"] == "Died"]
        for bad in died[:3]:
            rp = ctx.save_replay("pool_died_%d.ndjson" % i, json.dumps(bad) + "\n")
            ctx.violation("compile of a constant-pool program did not return cleanly: %s" % json.dumps(bad)[:300], rp)
        r = T.validate("Trace_ConstPool", "Trace_ConstPool.cfg", tf, timeout=1200)
        ctx.cov["trace_states"] = ctx.cov.get("trace_states", 0) + r["res"]["distinct"]
        if not r["accepted"]:
            bad = rows[min(r["rejected_at"], len(rows)) - 1]
            rp = ctx.save_replay("pool_%d.ndjson" % i, "".join(json.dumps(x) + "\n" for x in rows[:r["rejected_at"]]))
            ctx.violation("constant-pool events of a real compile rejected by ConstPool (%s) at %s"
                          % (r["why"], json.dumps(bad)[:300]), rp)
        else:
            ctx.cov["traces_validated_against_impl"] += len(ev)
    if nev and (maxn < 20 or not nfull):
        raise MachineryError("constant-pool programs never filled the pool (max n=%d, full answers=%d)" % (maxn, nfull))
    if not nev:
        raise MachineryError("no constant-pool events recorded (hook missing?)")
    ctx.cov["constant_pool"] = dict(events=nev, answered_with_full_pool=nfull, max_pool_length=maxn, programs=len(ks))


def tables(ctx):
    from ..opcodes import load
    quick = ctx.quick
    const_pool(ctx)
    progs = boundary_programs(ctx)
    ctx.cov["boundary_programs"] = len(progs)
    if quick and len(progs) > 700:
        # keep every program at/over a capacity, sample the rest by seed
        hot = [p for p in progs if p["err"] or p["p"] >= 100 or p["c"] >= 100 or p["t"] >= 64]
        rest = [p for p in progs if p not in hot]
        ctx.rng.shuffle(hot); ctx.rng.shuffle(rest)
        progs = hot[:500] + rest[:200]
    lines = []
    for i, p in enumerate(progs):
        lines.append("R r%d %s" % (i, ",".join("%s*%d" % (r["s"], r["n"]) for r in p["prog"])))
    ops = load()
    forms = [("x1", "s"), ("x1", "c"), ("x1", "p"), ("x2", "s"), ("x4", "s"), ("x2", "c")]
    for o in ops:
        for pf, k in (forms if not quick else forms[:4]):
            lines.append("O %s_%s%s %s %s %s" % (o["name"], pf, k, o["name"], pf, k))
    heavy = ["divluw", "mulhsl", "mulhul", "mulll", "mulslq", "mululq", "subusl", "addusl", "avgsl", "divf", "convfl",
             "convdl", "cmpgtsq", "mulhsw", "shruq", "absl"]
    for h in heavy:
        for n in ((20, 40, 62) if quick else (10, 20, 30, 40, 50, 60, 62, 63, 64, 98)):
            lines.append("H %s_%d %s %d" % (h, n, h, n))
    for cls, cap in (("d", 3), ("s", 7), ("a", 4), ("c", 8), ("p", 8), ("t", 16)):
        for n in (cap - 1, cap, cap + 1, cap + 9):
            lines.append("V %s_%d %s %d" % (cls, n, cls, n))
    # the compiler's constant pool (constants[20]): programs whose rules ask for k different pooled values,
    # k below / at / above the capacity (spec/ConstPool.tla gives the boundary and the two legal behaviours
    # of a full pool; the bounds-checking build decides whether the table is overrun)
    for k in range(10, 35):
        lines.append("K pool_%d %d" % (k, k))
    ctx.cov["constant_pool_programs"] = 25
    ctx.sample(lines[0]); ctx.sample(lines[-1])
    binary = build_harness("h_compile", "asan")
    def one(a):
        i, ls = a
        bf = os.path.join(ctx.work, "cmp_%d.txt" % i)
        tf = os.path.join(ctx.work, "cmp_trace_%d.ndjson" % i)
        open(bf, "w").write("\n".join(ls) + "\n")
        if os.path.exists(tf):
            os.unlink(tf)
        rc, out = sh([binary, bf, "all"], timeout=3000,
                     env={"ORC_VERIF_TRACE": tf, "ASAN_OPTIONS": "exitcode=99:detect_leaks=0", "H_WATCHDOG": "20"})
        if rc not in (0, 3):
            raise MachineryError("h_compile failed rc=%d: %s" % (rc, out[-2000:]))
        return tf
    ctx.rng.shuffle(lines)
    tfs = parallel(one, list(enumerate(chunks(lines, NCPU))))
    ncomp = 0
    for i, tf in enumerate(tfs):
        rows = read_ndjson(tf)
        ncomp += sum(1 for r in rows if r["e"] == "Compile")
        r = T.validate("Trace_Compile", "Trace_Compile.cfg", tf, timeout=1200)
        ctx.cov["trace_states"] = ctx.cov.get("trace_states", 0) + r["res"]["distinct"]
        guard = 0
        while not r["accepted"] and guard < 8:
            guard += 1
            bad = rows[r["rejected_at"] - 1]
            sig = dict(kind=bad.get("kind"), tgt=bad.get("tgt"), how=bad.get("how", "class"), id=bad.get("id"))
            k = ctx.match_known(sig)
            if k:
                ctx.known_finding(k["key"], k["what"])
            else:
                rp = ctx.save_replay("compile_%d_%d.ndjson" % (i, guard), json.dumps(bad) + "\n")
                ctx.violation("compile event rejected (%s): %s" % (r["why"], json.dumps(bad)[:300]), rp)
            rows = rows[:r["rejected_at"] - 1] + rows[r["rejected_at"]:]
            rest = os.path.join(ctx.work, "cmp_rest_%d.ndjson" % i)
            write_ndjson(rest, rows)
            r = T.validate("Trace_Compile", "Trace_Compile.cfg", rest, timeout=1200)
        if r["accepted"]:
            ctx.cov["traces_validated_against_impl"] += sum(1 for x in rows if x["e"] == "Compile")
    ctx.cov["compiles"] = ncomp
    ctx.cov["compile_descriptions"] = len(lines)
    # termination at the optimisation level of a release build: a loop whose exit relies on signed overflow
    # ends after 2^32 steps at -O1 and never at -O2.  Every opcode form is compiled once more for every target
    # with the -O2 library (no sanitizers) under the harness's watchdog; a compile that does not return is a
    # Died event, which Trace_Compile does not accept.
    olines = [l for l in lines if l.startswith("O ")]
    binary2 = build_harness("h_compile", "hooko2")
    def one2(a):
        i, ls = a
        bf = os.path.join(ctx.work, "cmpo2_%d.txt" % i)
        tf = os.path.join(ctx.work, "cmpo2_trace_%d.ndjson" % i)
        open(bf, "w").write("\n".join(ls) + "\n")
        if os.path.exists(tf):
            os.unlink(tf)
        rc, out = sh([binary2, bf, "all"], timeout=3000, env={"ORC_VERIF_TRACE": tf, "H_WATCHDOG": "20"})
        if rc not in (0, 3):
            raise MachineryError("h_compile (-O2) failed rc=%d: %s" % (rc, out[-2000:]))
        return tf
    n2 = 0
    for i, tf in enumerate(parallel(one2, list(enumerate(chunks(olines, NCPU))))):
        rows = read_ndjson(tf)
        n2 += sum(1 for r in rows if r["e"] == "Compile")
        r = T.validate("Trace_Compile", "Trace_Compile.cfg", tf, timeout=1200)
        if not r["accepted"]:
            bad = rows[r["rejected_at"] - 1]
            rp = ctx.save_replay("compile_o2_%d.ndjson" % i, json.dumps(bad) + "\n")
            ctx.violation("compile event of the -O2 build rejected (%s): %s" % (r["why"], json.dumps(bad)[:300]), rp)
    ctx.cov["compiles_at_O2"] = n2


def run(ctx):
    classes(ctx)
    tables(ctx)
    ctx.cov["exhaustive"] = True
    ctx.cov["rule"] = "see C16; C05 conjuncts (class <=> post-state) enforced on every compile event"


def replay(ctx, path):
    fails = O.validate(ctx, path, ["C05"], "replay")
    ctx.cov["states"] = max(1, ctx.cov.get("trace_states", 1)); ctx.cov["transitions"] = ctx.cov["states"]
    for seg, bad, why in fails:
        ctx.violation("replayed trace rejected: %s at %s" % (why, json.dumps(bad)[:200]), path)
