"""C04 - the C source Orc generates computes what emulation computes.

The plans of C02/C01 (one-opcode programs for every integer opcode with the second operand as
array / parameter / constant incl. 64-bit, x1/x2/x4; multi-instruction programs from the eight
templates, 1-D and 2-D, accumulators) are run a second time through the C generator:
harness/h_ops and harness/h_prog in mode cgen:<v> write the C text orc_program_compile_full
(target "c") returns for every program, gcc compiles it, and mode c:<v> calls the compiled
functions on the same inputs.  Variants: x = complete executor-based function, b = the bare body
orcc wraps into _backup_<name>, n = the bare NOEXEC body of the Orc-free build with the
prototype's arguments as locals.  TLC validates every element of every event against the
reference semantics (OrcOps / OrcProg, Trace_Ops / Trace_Prog), exactly as for emulation
and native code; a rejected event is a C04 violation when emulation of the same program on the
same inputs gives other bytes than the C code (otherwise it is C02's).
The opcode/emulation form (ORC_TARGET_C_OPCODE) is what tools/generate-emulation prints: the
tool is built against the current library, run, and its output must be the checked-in
orc/orcemulateopcodes.c / .h byte for byte - so the C02 verdict on the checked-in emulator is a
verdict on that form of the generator too.  The loads with index maps (loadoff, loadupdb,
loadupib, ldresnear, ldreslin) are compiled to C too and run by harness/h_guard on arrays mapped
exactly as large as spec/Footprint.tla entitles (C03's machinery): no fault, equal to emulation,
and the reference values of the index map (Trace_Footprint).
"""
import os, json, re, filecmp
from ..common import *
from .. import trace as T
from .. import genops
from . import c01, c02, c03

VARIANTS_C = ("x", "b", "n")


def regen(ctx):
    libdir = build_lib("plain")
    cfg = os.path.join(BUILD, "cfg")
    exe = os.path.join(ctx.work, "generate-emulation")
    rc, o = sh("gcc -O1 -DHAVE_CONFIG_H -I%s -I%s -o %s %s/tools/generate-emulation.c %s/liborc.a %s/liborctest.a -lm -lpthread"
               % (REPO, cfg, exe, REPO, libdir, libdir), timeout=600)
    if rc != 0:
        raise MachineryError("building generate-emulation failed: " + o[-2000:])
    for flag, name in ((None, "orcemulateopcodes.c"), ("--header", "orcemulateopcodes.h")):
        out = os.path.join(ctx.work, name)
        rc, o = sh([exe] + ([flag] if flag else []) + ["-o", out], timeout=120)
        if rc != 0 or not os.path.exists(out):
            rp = ctx.save_replay("regen_%s.txt" % name, o[-3000:])
            ctx.violation("tools/generate-emulation fails on the current opcode definitions (rc=%s)" % rc, rp)
            continue
        a = open(out).read().splitlines(); b = open(os.path.join(REPO, "orc", name)).read().splitlines()
        ctx.cov["emulator_lines_compared"] = ctx.cov.get("emulator_lines_compared", 0) + len(b)
        if a != b:
            import difflib
            d = "\n".join(list(difflib.unified_diff(b, a, "checked-in " + name, "regenerated " + name, lineterm=""))[:200])
            rp = ctx.save_replay("regen_%s.diff" % name, d + "\n")
            ctx.violation("orc/%s is not what the C generator produces from the current opcode definitions:\n%s"
                          % (name, d[:1500]), rp)


def c_paths(ctx, harness, lines, label, variants, opt="-O2"):
    """generate, compile and run the plan through the C target; returns [(path, trace)]"""
    binary = build_harness(harness, "hook")
    cfg = os.path.join(BUILD, "cfg")
    jobs = []
    per = max(1, NCPU // len(variants))
    for v in variants:
        for i, ch in enumerate(chunks(lines, per)):
            jobs.append((v, i, ch))
    def one(a):
        v, i, ch = a
        base = os.path.join(ctx.work, "%s_%s%s_%d" % (label, v, opt.replace("-", ""), i))
        pf, cf, so, tf = base + ".plan", base + ".c", base + ".so", base + ".ndjson"
        open(pf, "w").write("\n".join(ch) + "\n")
        for f in (tf, cf, so):
            if os.path.exists(f):
                os.unlink(f)
        env = {"H_CGEN_OUT": cf, "H_EX16_PASSES": "1", "ORC_VERIF_TRACE": base + ".gen.ndjson"}
        rc, out = sh([binary, "cgen:" + v, pf], timeout=3000, env=env)
        if rc != 0:
            raise MachineryError("%s cgen failed rc=%d %s" % (harness, rc, out[-800:]))
        rc, out = sh("gcc %s -fPIC -shared -w -I%s -I%s -o %s %s" % (opt, REPO, cfg, so, cf), timeout=3000)
        if rc != 0:
            # the property: the generated C compiles
            return "c:" + v, None, (cf, out[-3000:])
        rc, out = sh([binary, "c:" + v, pf], timeout=3000, env={"H_CSO": so, "H_EX16_PASSES": "1", "ORC_VERIF_TRACE": tf})
        if rc != 0:
            raise MachineryError("%s c-run failed rc=%d %s" % (harness, rc, out[-800:]))
        os.unlink(base + ".gen.ndjson") if os.path.exists(base + ".gen.ndjson") else None
        return "c:" + v + ("" if opt == "-O2" else opt), tf, None
    res = parallel(one, jobs)
    ok = []
    for path, tf, err in res:
        if err:
            rp = ctx.save_replay("%s_gcc.txt" % label, "file: %s\n%s\n" % err)
            ctx.violation("C04: gcc rejects the C source generated for the programs of %s (variant %s): %s"
                          % (label, path, err[1][-600:]), rp)
        else:
            ok.append((path, tf))
    return ok


def emu_index(traces, keyf):
    idx = {}
    for _, tf in traces:
        for r in read_ndjson(tf):
            if r.get("e") in ("Run", "Prog"):
                idx[keyf(r)] = r
    return idx


def key_run(r):
    return json.dumps([r.get("op"), r.get("x"), r.get("n"), r.get("off"), r.get("sc"), r.get("a"), r.get("b")])


def key_prog(r):
    return json.dumps([r.get("insns"), r.get("n"), r.get("m"), r.get("off"), r.get("stride"), r.get("consts"), r.get("ins")])


def validate(ctx, traces, emu, module, keyf, outf, label):
    """TLC validation of the C-path events; rejected events are compared with emulation's"""
    def val(a):
        path, tf = a
        rows = read_ndjson(tf)
        bad, elems, g = [], 0, 0
        r = T.validate(module, module + ".cfg", tf, timeout=3000, heap="6g")
        st = [r["res"]["distinct"], r["res"]["generated"]]
        while True:
            if r["accepted"]:
                m = re.search(r'"ELEMENTS", (\d+)', r["res"]["out"])
                elems += int(m.group(1)) if m else 0
                break
            g += 1
            ev = rows[r["rejected_at"] - 1]
            bad.append(ev)
            k = ev.get("op") if ev.get("e") == "Run" else json.dumps(ev.get("insns"))
            rows = [x for x in rows[r["rejected_at"]:]
                    if not ((x.get("op") if x.get("e") == "Run" else json.dumps(x.get("insns"))) == k and x.get("e") == ev.get("e"))]
            if not rows or g > 40:
                break
            write_ndjson(tf + ".rest", rows)
            r = T.validate(module, module + ".cfg", tf + ".rest", timeout=3000, heap="6g")
        allr = read_ndjson(tf)
        return path, bad, elems, sum(1 for x in allr if x["e"] in ("Run", "Prog")), [x for x in allr if x["e"] in ("NoCode", "Died")], st
    n = 0
    seen = set()
    for path, bad, elems, runs, others, st in parallel(val, traces):
        ctx.cov["states"] += st[0]; ctx.cov["transitions"] += st[1]
        ctx.cov["elements_validated"] = ctx.cov.get("elements_validated", 0) + elems
        ctx.cov["traces_validated_against_impl"] += runs
        for ev in others:
            if ev["e"] == "Died":
                rp = ctx.save_replay("%s_died.ndjson" % label, json.dumps(ev) + "\n")
                ctx.violation("C04: the compiled C for plan line '%s' died with signal %s (%s)" % (ev.get("plan"), ev.get("sig"), path), rp)
            else:
                ctx.cov["programs_without_c_code"] = ctx.cov.get("programs_without_c_code", 0) + 1
        for ev in bad:
            kk = (ev.get("op") or json.dumps(ev.get("insns")), ev.get("x"), path)
            if kk in seen:
                continue
            seen.add(kk)
            e = emu.get(keyf(ev))
            if e is not None and outf(e) == outf(ev):
                ctx.info("%s event rejected by the reference but equal to emulation (C02/C01 matter): %s" % (path, kk[0]))
                continue
            sig = dict(op=ev.get("op") or "prog", path=path, kind="c")
            k = ctx.match_known(sig)
            if k:
                ctx.known_finding(k["key"], k["what"]); continue
            n += 1
            rp = ctx.save_replay("%s_%d.ndjson" % (label, n), json.dumps(ev) + "\n")
            ctx.violation("C04: generated C (%s) for %s computes other bytes than %s (n=%s off=%s)%s" % (
                path, kk[0], "emulation" if e is not None else "the reference", ev.get("n"), ev.get("off"),
                "" if e is None else " emulation: %s  C: %s" % (json.dumps(outf(e))[:160], json.dumps(outf(ev))[:160])), rp)


def run(ctx):
    quick = ctx.quick
    ops_all = genops.write()
    ops = c02.int_ops(ops_all)
    regen(ctx)
    modes = ("bnd", "par", "con") if quick else ("bnd", "rnd", "par", "con", "ex8", "ex16")
    lines = [l for l in c02.plan(ops, True, ctx.seed) if l.split()[2] in modes]
    ctx.rng.shuffle(lines)
    ctx.cov["single_opcode_plan_lines"] = len(lines)
    plines = c01.prog_plan(ops_all, ctx.rng, 96 if quick else 800)
    ctx.cov["programs"] = len(plines)
    ctx.sample(lines[0]); ctx.sample(plines[0])
    opts = ("-O2",) if quick else ("-O2", "-O0")
    emu_ops = c02.run_paths(ctx, lines, ["emu"], "c04emu")
    emu_progs = c01.run_progs(ctx, plines, ["emu"], "c04emup")
    eo = emu_index(emu_ops, key_run)
    ep = emu_index(emu_progs, key_prog)
    out_run = lambda r: [r.get("d"), r.get("d2"), r.get("fence")]
    out_prog = lambda r: [r.get("outs"), r.get("accs"), r.get("fence")]
    for opt in opts:
        t1 = c_paths(ctx, "h_ops", lines, "c04op", VARIANTS_C, opt)
        validate(ctx, t1, eo, "Trace_Ops", key_run, out_run, "c04op")
        t2 = c_paths(ctx, "h_prog", plines, "c04prog", VARIANTS_C, opt)
        validate(ctx, t2, ep, "Trace_Prog", key_prog, out_prog, "c04prog")
    # loads with index maps (loadoff, loadupdb, loadupib, ldresnear, ldreslin) and a sample of plain
    # opcodes in generated C, on arrays mapped exactly as large as the specification entitles
    cfgs = c03.configs(ctx, 24 if quick else 60)
    glines = []
    for cf in cfgs:
        names = c03.SPECIAL.get(cf["kind"]) or ["copyb", "addw", "convsbw", "mergebw", "splitwb", "accw", "mulslq"]
        if cf["kind"] == "plain" and cf["n"] % 4:
            continue
        for nm in names:
            for place in (0, 1):
                for m in ((1,) if cf["kind"] != "plain" else (1, 3)):
                    glines.append("%s %s %d %d %d %d %d %d %d %d" % (cf["kind"], nm, cf["n"], cf["off"], cf["b"], cf["c"],
                                                                      cf["lo"], cf["hi"], place, m))
    if quick:
        ctx.rng.shuffle(glines)
        glines = glines[:4000]
    ctx.cov["guarded_plan_lines"] = len(glines)
    gt = c_paths(ctx, "h_guard", glines, "c04guard", ("x", "n"), "-O2")
    c03.guard_report(ctx, gt, "C04")
    ctx.cov["states"] = max(ctx.cov.get("states", 0), 1)
    ctx.cov["exhaustive"] = False
    ctx.cov["rule"] = ("every integer opcode x {array, parameter, constant} second operand x x1/x2/x4 and the 8 program "
                       "templates (1-D/2-D, accumulators) x C variants {executor function, bare backup body, bare NOEXEC "
                       "body} x gcc %s; regenerated emulator compared byte for byte" % "/".join(opts))
    ctx.assumptions += ["float opcodes and float/double parameters are C18's", "the C compiler is the installed gcc",
                        "loads with index maps in generated C: footprint, equality with emulation and reference values "
                        "through the guarded-memory harness of C03 (executor and NOEXEC forms)"]


def replay(ctx, path):
    rows = read_ndjson(path)
    mod = "Trace_Prog" if rows and rows[0].get("e") == "Prog" else "Trace_Ops"
    r = T.validate(mod, mod + ".cfg", path)
    ctx.cov["states"] = max(1, r["res"]["distinct"]); ctx.cov["transitions"] = max(1, r["res"]["generated"])
    if not r["accepted"]:
        ctx.violation("replayed event rejected by " + mod, path)
