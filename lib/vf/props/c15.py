"""C15 - a program written as .orc text is the program built through the API.

Programs come from TLC (spec/Gen_Bytecode.tla, the generator of C13: every variable class,
sizes, alignments, 32/64-bit constants, all parameter classes, 2-D and fixed-size settings,
x2/x4, multi-destination opcodes).  Each abstract program is (a) built through the
construction API and (b) printed as .orc text by an independent printer with seeded
formatting -- spacing, tabs, trailing comments, blank and comment lines, LF / CR LF /
missing final newline, decimal / hex / negative literal spelling, constants declared or
written in place -- and parsed by the real parser.  TLC validates every Parse event against
Trace_TextApi: error-free, one program, identical bytecode of parsed program and API twin,
and Bytecode!Decode of those bytes is the abstract program the text was printed from.
"""
import os, json, random
from ..common import *
from .. import trace as T
from .. import genops
from .c13 import render as render_api, cfg as gen_cfg


FLOATS = {(0, 0, 32, 64): "2.5", (0, 0, 0, 63): "0.5", (0, 0, 122, 68): "1000.0"}


def lit32(bs, rng, size):
    v = bs[0] | bs[1] << 8 | bs[2] << 16 | bs[3] << 24
    sv = v - (1 << 32) if v >= 1 << 31 else v
    if tuple(bs[:4]) in FLOATS and size == 4:
        return rng.choice([FLOATS[tuple(bs[:4])], FLOATS[tuple(bs[:4])], str(sv)])
    return rng.choice([str(sv), hex(v), str(sv)])


def lit64(bs, rng):
    v = sum(b << (8 * i) for i, b in enumerate(bs))
    sv = v - (1 << 64) if v >= 1 << 63 else v
    return rng.choice([str(sv) + "L", str(sv) + "l", str(sv)])


def to_text(p, ops, rng):
    name = "".join(chr(c) for c in p["name"])
    L = [".function " + name]
    def junk():
        if rng.random() < 0.25:
            L.append(rng.choice(["", "# comment", "   ", "\t# indented, with, commas"]))
    if p["cn"]: L.append(".n %d" % p["cn"])
    if p["nmul"]: L.append(".n mult %d" % p["nmul"])
    if p["nmin"]: L.append(".n min %d" % p["nmin"])
    if p["nmax"]: L.append(".n max %d" % p["nmax"])
    if p["twod"]:
        L.append(".flags 2d")
        if p["cm"]: L.append(".m %d" % p["cm"])
    slot = {}
    for i, x in enumerate(p["d"]):
        junk(); slot[i] = "d%d" % (i + 1)
        L.append(".dest %d d%d%s" % (x["size"], i + 1, "" if x["align"] == x["size"] else " align %d" % x["align"]))
    for i, x in enumerate(p["s"]):
        junk(); slot[4 + i] = "s%d" % (i + 1)
        L.append(".source %d s%d%s" % (x["size"], i + 1, "" if x["align"] == x["size"] else " align %d" % x["align"]))
    for i, x in enumerate(p["a"]):
        slot[12 + i] = "a%d" % (i + 1); L.append(".accumulator %d a%d" % (x, i + 1))
    for i, x in enumerate(p["c"]):
        junk(); slot[16 + i] = "c%d" % (i + 1)
        v = lit32(x["bytes"], rng, x["size"]) if x["size"] <= 4 else lit64(x["bytes"], rng)
        L.append(".const %d c%d %s" % (x["size"], i + 1, v))
    for i, x in enumerate(p["p"]):
        slot[24 + i] = "p%d" % (i + 1)
        d = {"int": ".param", "float": ".floatparam", "int64": ".longparam", "double": ".doubleparam"}[x["ptype"]]
        L.append("%s %d p%d" % (d, x["size"], i + 1))
    for i, x in enumerate(p["t"]):
        junk(); slot[32 + i] = "t%d" % (i + 1); L.append(".temp %d t%d" % (x, i + 1))
    for ins in p["insns"]:
        junk()
        pre = "x2 " if ins["flags"] == 1 else ("x4 " if ins["flags"] == 2 else "")
        L.append(pre + ops[ins["op"]]["name"] + " " + ", ".join(slot[a] for a in ins["args"]))
    return L


def literal_form(p, ops):
    """the same program with every constant written in place: the constant table is then what
    the parser builds -- one entry per distinct (operand size, value) in order of first use,
    sized by the operand of the opcode that uses it.  None when a constant is unused twice
    over or the form is ambiguous."""
    import copy
    q = copy.deepcopy(p)
    newc, remap, key_of = [], {}, {}
    for ins in q["insns"]:
        o = ops[ins["op"]]
        sizes = o["dest"] + o["src"]
        for j, a in enumerate(ins["args"]):
            if 16 <= a < 24:
                cst = p["c"][a - 16]
                osz = sizes[j] * (2 if ins["flags"] == 1 else 4 if ins["flags"] == 2 else 1)
                psz = sizes[j]          # the parser sizes the constant by the opcode's own operand size
                w = 4 if psz <= 4 else 8
                if (4 if cst["size"] <= 4 else 8) != w:
                    return None         # a 4-byte pattern cannot be spelled as an 8-byte literal
                val = tuple(cst["bytes"][:w])
                k = (psz, val)
                if k not in key_of:
                    if len(newc) >= 8:
                        return None
                    key_of[k] = len(newc)
                    newc.append(dict(size=psz, bytes=list(val)))
                ins["args"][j] = 16 + key_of[k]
    q["c"] = newc
    return q


def to_text_literal(p, ops, rng):
    """like to_text, constants spelled where they are used"""
    head = to_text(dict(p, c=[], insns=[]), ops, rng)
    slot = {}
    for i in range(len(p["d"])): slot[i] = "d%d" % (i + 1)
    for i in range(len(p["s"])): slot[4 + i] = "s%d" % (i + 1)
    for i in range(len(p["a"])): slot[12 + i] = "a%d" % (i + 1)
    for i in range(len(p["p"])): slot[24 + i] = "p%d" % (i + 1)
    for i in range(len(p["t"])): slot[32 + i] = "t%d" % (i + 1)
    out = head
    spelled = {}     # one spelling per constant: "-1" and "0xffffffff" are different 64-bit values for
                     # the parser's sharing rule even where the operand is one byte wide
    for ins in p["insns"]:
        pre = "x2 " if ins["flags"] == 1 else ("x4 " if ins["flags"] == 2 else "")
        args = []
        for a in ins["args"]:
            if 16 <= a < 24:
                cst = p["c"][a - 16]
                if a not in spelled:
                    spelled[a] = lit32(cst["bytes"], rng, cst["size"]) if cst["size"] <= 4 else lit64(cst["bytes"], rng)
                args.append(spelled[a])
            else:
                args.append(slot[a])
        out.append(pre + ops[ins["op"]]["name"] + " " + ", ".join(args))
    return out


def fmt_line(line, rng):
    if not line.strip() or line.lstrip().startswith("#"):
        return line
    out = ""
    for ch in line:
        out += rng.choice([" ", "  ", "\t"]) if ch == " " else ch
    out = out.replace(",", rng.choice([",", ", ", ",\t", ",  "]))
    return rng.choice(["", " ", "\t"]) + out + rng.choice(["", " ", "  # c", "\t"])


def duplicate_constant(p):
    """two declared constants with the same size and value are one variable for the parser
    (documented sharing): such programs are outside the twin comparison"""
    seen = set()
    for c in p["c"]:
        k = (c["size"], tuple(c["bytes"][:4 if c["size"] <= 4 else 8]))
        if k in seen:
            return True
        seen.add(k)
    return False


def run(ctx):
    quick = ctx.quick
    ops = genops.write()
    rng = random.Random(ctx.seed)
    # design level: the generator's programs satisfy the round trip (as in C13)
    res = tlc("Gen_Bytecode", gen_cfg(ctx, "BC_mc", 3, 99), workers=8, timeout=3000, heap="8g")
    if not tlc_ok(res, "Gen_Bytecode"):
        rp = ctx.save_replay("model.txt", res["out"][-6000:])
        ctx.violation("Bytecode specification violates %s" % res["violated"], rp)
        return
    ctx.add_model(res, "Gen_Bytecode")
    progs = []
    for depth, n in ((12, 500 if quick else 6000), (20, 250 if quick else 3000)):
        sim = tlc("Gen_Bytecode", gen_cfg(ctx, "BC_sim%d" % depth, depth, depth), workers=1, timeout=1500,
                  simulate=n, depth=depth + 1, seed=ctx.seed * 7 + depth)
        tlc_ok(sim, "Gen_Bytecode simulation")
        for l in sim["out"].splitlines():
            if l.startswith('"PROG '):
                progs.append(json.loads(json.loads(l)[5:]))
    uniq = {}
    for p in progs:
        if not duplicate_constant(p):
            uniq[json.dumps(p, sort_keys=True)] = p
    progs = list(uniq.values())
    d = os.path.join(ctx.work, "files")
    os.makedirs(d, exist_ok=True)
    pf = os.path.join(ctx.work, "progs.ndjson")
    with open(pf, "w") as f:
        allp = []
        for p in progs:
            allp.append((p, False))
            q = literal_form(p, ops)
            if q is not None and any(16 <= a < 24 for ins in q["insns"] for a in ins["args"]):
                allp.append((q, True))
        progs = [x[0] for x in allp]
        for i, (p, lit) in enumerate(allp):
            lines = [fmt_line(l, rng) for l in (to_text_literal(p, ops, rng) if lit else to_text(p, ops, rng))]
            style = rng.choice(["lf", "crlf", "lf_nofinal", "crlf_nofinal"])
            eol = "\r\n" if style.startswith("crlf") else "\n"
            txt = eol.join(lines) + (eol if style in ("lf", "crlf") else "")
            open(os.path.join(d, "f%d.orc" % i), "w", newline="").write(txt)
            open(os.path.join(d, "f%d.api" % i), "w").write(render_api(p) + "\n")
            f.write(json.dumps(dict(f=i, prog=p)) + "\n")
    ctx.cov["programs"] = len(progs)
    ctx.sample({"text": open(os.path.join(d, "f0.orc")).read(), "api": open(os.path.join(d, "f0.api")).read()})
    from .c14 import parse_all
    tfs = parse_all(ctx, d, len(progs), "c15")
    def val(tf):
        rows = read_ndjson(tf)
        bad = []
        r = T.validate("Trace_TextApi", "Trace_TextApi.cfg", tf, env={"PROGS": pf}, timeout=2400, heap="6g")
        g = 0
        while not r["accepted"] and g < 8:
            g += 1
            bad.append(rows[r["rejected_at"] - 1])
            rows = rows[:r["rejected_at"] - 1] + rows[r["rejected_at"]:]
            write_ndjson(tf + ".rest", rows)
            r = T.validate("Trace_TextApi", "Trace_TextApi.cfg", tf + ".rest", env={"PROGS": pf}, timeout=2400, heap="6g")
        return bad, sum(1 for x in rows if x["e"] == "Parse")
    n = 0
    for bad, good in parallel(val, tfs):
        ctx.cov["traces_validated_against_impl"] += good
        for ev in bad[:3]:
            n += 1
            f = ev.get("f", 0)
            src = os.path.join(d, "f%d.orc" % f)
            rp = ctx.save_replay("textapi_%d.json" % n, dict(event=ev, text=open(src).read() if os.path.exists(src) else "",
                                                              prog=progs[f] if f < len(progs) else None))
            ctx.violation("parsed text and API twin differ (file %s): errs=%s nprogs=%s same_bytes=%s" % (
                src, ev.get("errs"), ev.get("nprogs"), ev.get("text") == ev.get("api")), rp)
    ctx.cov["exhaustive"] = False
    ctx.cov["rule"] = "distinct programs of seeded TLC simulations of Gen_Bytecode (12 and 20 construction steps), one file each"


def replay(ctx, path):
    ctx.cov["states"] = 1; ctx.cov["transitions"] = 1
    d = json.load(open(path))
    ctx.info("replay file holds the event, the text and the abstract program: %s" % list(d))
