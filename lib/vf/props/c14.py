"""C14 - the .orc parser is total.

1. TLC model-checks spec/OrcText.tla: Step(state, line kind) is defined for every kind in every
   state (Total), counts stay within their tables (InTables), error lines are real lines.
   Exhaustive for all files of up to MaxLines kinds; seeded simulation to 120 lines with
   block kinds that reach every capacity.
2. Every file of <= 3 kinds (thorough; a seeded sample in quick) and the simulated long files
   are rendered to text with seeded formatting (spacing, trailing comments, LF / CR LF /
   missing final newline / trailing CR) and parsed by the real parser in the ASan build; every
   returned program is compiled and freed and the error vector released.
3. TLC validates each Parse event against Trace_OrcText: the parse returned, every problem
   line of the specification has an error record with its line number, program and
   variable/instruction counts are the specification's.
4. Weak contract on arbitrary bytes (seeded random strings and mutated corpus lines): returns,
   error lines within 1..lines+1, programs compile-or-fail and free, no sanitizer report.
"""
import os, json, itertools, random
from ..common import *
from .. import trace as T
from ..orctext import Renderer

KINDS = None


def kinds_from_spec():
    src = open(os.path.join(SPEC, "OrcText.tla")).read()
    import re
    ks = set()
    for name in ("Harmless", "NeedsProgOk", "AlwaysBad", "Ops"):
        m = re.search(name + r" == \{([^}]*)\}", src)
        ks |= set(re.findall(r'"(\w+)"', m.group(1)))
    m = re.search(r"Decl == \[(.*?)\]", src, re.S)
    ks |= set(re.findall(r"(\w+) \|->", m.group(1)))
    ks |= {"function", "function0", "init", "init0"}
    return sorted(ks)


def cfg(ctx, name, maxlines, dumpat, view="View"):
    fn = os.path.join(ctx.work, name + ".cfg")
    open(fn, "w").write("SPECIFICATION Spec\nCONSTANTS\n MaxLines = %d\n DumpAt = %d\nINVARIANTS InTables LinesNumbered%s\n"
                        "%sCHECK_DEADLOCK FALSE\n" % (maxlines, dumpat, " Total" if dumpat >= 9999 else " DumpInv",
                                                      ("VIEW %s\n" % view) if view else ""))
    return fn


def write_files(ctx, files, label, rng):
    """files: list of kind lists; returns dir, kinds ndjson"""
    d = os.path.join(ctx.work, label)
    os.makedirs(d, exist_ok=True)
    kf = os.path.join(ctx.work, label + "_kinds.ndjson")
    with open(kf, "w") as f:
        for i, ks in enumerate(files):
            r = Renderer(rng)
            open(os.path.join(d, "f%d.orc" % i), "w", newline="").write(r.text(ks))
            f.write(json.dumps(dict(f=i, kinds=ks)) + "\n")
    return d, kf


def parse_all(ctx, d, n, label):
    binary = build_harness("h_parse", "asan")
    per = (n + NCPU - 1) // NCPU
    def one(i):
        tf = os.path.join(ctx.work, "%s_trace_%d.ndjson" % (label, i))
        if os.path.exists(tf):
            os.unlink(tf)
        first = i * per
        cnt = min(per, n - first)
        if cnt <= 0:
            return None
        rc, out = sh([binary, d, str(first), str(cnt)], timeout=2400,
                     env={"ORC_VERIF_TRACE": tf, "ASAN_OPTIONS": "exitcode=99:detect_leaks=0"})
        if rc not in (0, 3):
            raise MachineryError("h_parse failed rc=%d %s" % (rc, out[-800:]))
        return tf
    return [t for t in parallel(one, list(range(NCPU))) if t]


def validate(ctx, tfs, kf, label, files):
    def val(tf):
        rows = read_ndjson(tf)
        bad = []
        r = T.validate("Trace_OrcText", "Trace_OrcText.cfg", tf, env={"KINDS": kf}, timeout=2400, heap="6g")
        g = 0
        while not r["accepted"] and g < 8:
            g += 1
            bad.append(rows[r["rejected_at"] - 1])
            rows = rows[:r["rejected_at"] - 1] + rows[r["rejected_at"]:]
            write_ndjson(tf + ".rest", rows)
            r = T.validate("Trace_OrcText", "Trace_OrcText.cfg", tf + ".rest", env={"KINDS": kf}, timeout=2400, heap="6g")
        return bad, sum(1 for x in rows if x["e"] == "Parse")
    n = 0
    for bad, good in parallel(val, tfs):
        ctx.cov["traces_validated_against_impl"] += good
        for ev in bad[:3]:
            n += 1
            f = ev.get("f", -1)
            ks = files[f] if 0 <= f < len(files) else []
            rp = ctx.save_replay("%s_%d.json" % (label, n), dict(event=ev, kinds=ks))
            sig = dict(kind="parse", kinds=",".join(ks[-3:]))
            k = ctx.match_known(sig)
            if k:
                ctx.known_finding(k["key"], k["what"]); continue
            ctx.violation("parser contradicts the specification for the file of kinds %s: %s" % (
                ks[:12], json.dumps(ev)[:300]), rp)


def weak(ctx, rng, n):
    """arbitrary bytes: only the weak contract"""
    d = os.path.join(ctx.work, "weak")
    os.makedirs(d, exist_ok=True)
    corpus = []
    for fn in ("testsuite/test.orc", "orc/orcfunctions.orc"):
        p = os.path.join(REPO, fn)
        if os.path.exists(p):
            corpus += open(p, errors="replace").read().splitlines()
    alphabet = " \t,#.x0123456789abdlqw_-\r\n"
    for i in range(n):
        mode = i % 3
        if mode == 0:
            t = "".join(rng.choice(alphabet) for _ in range(rng.randrange(1, 200)))
        elif mode == 1 and corpus:
            ls = [rng.choice(corpus) for _ in range(rng.randrange(1, 40))]
            for _ in range(rng.randrange(1, 6)):
                j = rng.randrange(len(ls)); toks = ls[j].split()
                op = rng.randrange(4)
                if toks and op == 0: toks.pop(rng.randrange(len(toks)))
                elif toks and op == 1: toks.insert(rng.randrange(len(toks) + 1), rng.choice(toks))
                elif op == 2: toks = toks * rng.randrange(2, 9)
                else: toks = [t[::-1] for t in toks]
                ls[j] = " ".join(toks)
            t = rng.choice(["\n", "\r\n"]).join(ls)
        else:
            t = "".join(chr(rng.randrange(1, 256)) for _ in range(rng.randrange(1, 120)))
        open(os.path.join(d, "f%d.orc" % i), "w", newline="", encoding="latin-1").write(t)
    tfs = parse_all(ctx, d, n, "weak")
    died = 0
    for tf in tfs:
        for r in read_ndjson(tf):
            if r["e"] == "Died":
                died += 1
                if died <= 3:
                    src = os.path.join(d, "f%d.orc" % r["f"])
                    rp = ctx.save_replay("weak_%d.orc" % r["f"], open(src, encoding="latin-1").read())
                    ctx.violation("parser died (%s) on arbitrary text %s" % (r["how"], src), rp)
            elif r["e"] == "Parse":
                ctx.cov["weak_files_parsed"] = ctx.cov.get("weak_files_parsed", 0) + 1


def run(ctx):
    quick = ctx.quick
    kinds = kinds_from_spec()
    res = tlc("OrcText", cfg(ctx, "OT_mc", 3 if quick else 4, 9999), workers=8, timeout=3000, heap="8g")
    if not tlc_ok(res, "OrcText"):
        rp = ctx.save_replay("model.txt", res["out"][-6000:])
        ctx.violation("OrcText design model violates %s" % res["violated"], rp)
        return
    ctx.add_model(res, "OrcText")
    rng = random.Random(ctx.seed)
    files = [[a] for a in kinds] + [[a, b] for a in kinds for b in kinds]
    triples = [["function", a, b] for a in kinds for b in kinds] + [[a, b, c] for a in kinds for b in kinds for c in kinds]
    if quick:
        rng.shuffle(triples)
        triples = triples[:6000]
    files += triples
    # long files from TLC simulation (block kinds reach the capacities)
    longs = []
    for depth, n in ((25, 150 if quick else 1500), (60, 60 if quick else 500)):
        sim = tlc("OrcText", cfg(ctx, "OT_sim%d" % depth, 100000, depth, view=None), workers=1, timeout=1500,
                  simulate=n, depth=depth + 1, seed=ctx.seed + depth)
        tlc_ok(sim, "OrcText simulation")
        for l in sim["out"].splitlines():
            if l.startswith('"FILE '):
                longs.append(json.loads(json.loads(l)[5:]))
    # directed capacity files: every class and the instruction table just below / at / above
    for cls, k, cap in (("dest", "dest", 4), ("source", "source", 8), ("acc", "acc", 4), ("const", "const", 8),
                        ("param", "param", 8), ("temp", "temp", 16)):
        for n in (cap - 1, cap, cap + 1, cap + 3):
            longs.append(["function"] + [k] * n + ["dest", "source", "op_ok"])
    for n in (2, 3):
        longs.append(["function", "dest", "source"] + ["ops40"] * n + ["op_ok", "op_lit", "op_badoperand"])
    files += longs
    ctx.cov["files"] = len(files)
    ctx.cov["long_files"] = len(longs)
    d, kf = write_files(ctx, files, "files", rng)
    ctx.sample({"kinds": files[len(kinds) + 5], "text": open(os.path.join(d, "f%d.orc" % (len(kinds) + 5))).read()})
    ctx.sample({"kinds": longs[0][:20]})
    tfs = parse_all(ctx, d, len(files), "files")
    validate(ctx, tfs, kf, "parse", files)
    weak(ctx, rng, 1500 if quick else 20000)
    ctx.cov["exhaustive"] = not quick
    ctx.cov["rule"] = ("all files of 1 and 2 line kinds, all (thorough) or a seeded sample (quick) of 3 kinds, TLC "
                       "simulations of 25 and 60 kinds, directed capacity files; formatting seeded per file")


def replay(ctx, path):
    d = json.load(open(path))
    ctx.cov["states"] = 1; ctx.cov["transitions"] = 1
    rng = random.Random(ctx.seed)
    dd, kf = write_files(ctx, [d["kinds"]], "replay", rng)
    tfs = parse_all(ctx, dd, 1, "replay")
    validate(ctx, tfs, kf, "replay", [d["kinds"]])
