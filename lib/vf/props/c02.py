"""C02 - every opcode means what the reference says, for every operand value.

spec/OrcOps.tla (over spec/OrcWord.tla) defines every integer opcode of the sys set from the
opcode reference; harness/h_ops emulates one-opcode programs (orc_executor_emulate) over
operand vectors and TLC validates every element of every Run event against OrcOps
(Trace_Ops): exhaustively all 256 values / 65536 pairs for 8-bit operands, all 65536 values
of 16-bit first operands, boundary-biased and seeded random operands for every size, for
n crossing the 16-element emulation chunks, with misaligned arrays, and lane-wise under
x2 / x4.  TLC also checks algebraic sanity properties of the definitions themselves
(Test_OrcOps) exhaustively on 8-bit words.
"""
import os, json, re
from ..common import *
from .. import trace as T
from .. import genops

LOADS = ("load", "store", "ldres")
FLOAT = re.compile(r".*(f|d)$|^conv(fl|lf|dl|ld|fd|df|wf)$")


def int_ops(ops):
    out = []
    for o in ops:
        n = o["name"]
        if n.startswith(LOADS):
            continue
        if "FLOAT" in o["flags"] and n not in ("orf", "andf"):
            continue
        out.append(o)
    return out


def plan(ops, quick, seed):
    lines = []
    for o in ops:
        n = o["name"]; sa = o["src"][0]; sb = o["src"][1] if len(o["src"]) > 1 else 0; sd = o["dest"][0]
        if sa == 1 and sb in (0, 1):
            lines.append("%s 1 ex8 %d" % (n, seed))
        if sa == 2:
            lines.append("%s 1 ex16 %d" % (n, seed))
        for mult in (1, 2, 4):
            if max(sa, sb, sd if "ACCUMULATOR" not in o["flags"] else 0) * mult > 8:
                continue
            lines.append("%s %d bnd %d" % (n, mult, seed))
            lines.append("%s %d rnd %d" % (n, mult, seed + 1))
            if sb and "ACCUMULATOR" not in o["flags"]:
                # second operand as a parameter / as a constant instead of an array
                lines.append("%s %d par %d" % (n, mult, seed + 2))
                lines.append("%s %d con %d" % (n, mult, seed + 3))
            if not quick:
                for k in range(2, 8):
                    lines.append("%s %d bnd %d" % (n, mult, seed + 10 * k))
                    lines.append("%s %d rnd %d" % (n, mult, seed + 10 * k + 1))
    return lines


def run_paths(ctx, lines, paths, label, focus_ops=None):
    """runs the plan on every path; returns list of (path, trace file)"""
    binary = build_harness("h_ops", "hook")
    jobs = []
    for path in paths:
        for i, ch in enumerate(chunks(lines, max(1, NCPU // len(paths)))):
            jobs.append((path, i, ch))
    def one(a):
        path, i, ch = a
        pf = os.path.join(ctx.work, "%s_%s_%d.plan" % (label, path, i))
        tf = os.path.join(ctx.work, "%s_%s_%d.ndjson" % (label, path, i))
        open(pf, "w").write("\n".join(ch) + "\n")
        if os.path.exists(tf):
            os.unlink(tf)
        rc, out = sh([binary, path, pf], timeout=3000,
                     env={"ORC_VERIF_TRACE": tf, "H_EX16_PASSES": "1" if ctx.quick else "6"})
        if rc != 0:
            raise MachineryError("h_ops failed rc=%d %s" % (rc, out[-800:]))
        return path, tf
    return parallel(one, jobs)


def first_bad_element(ev):
    """for the report: index of the first element whose operands are shown"""
    return {k: (v if not isinstance(v, list) else v[:24]) for k, v in ev.items()}


def validate_ops(ctx, traces, label, prop):
    def val(a):
        path, tf = a
        rows = read_ndjson(tf)
        bad = []
        elems = 0
        r = T.validate("Trace_Ops", "Trace_Ops.cfg", tf, timeout=3000, heap="6g")
        g = 0
        total = sum(1 for x in rows if x["e"] == "Run")
        while True:
            m = re.search(r'"ELEMENTS", (\d+)', r["res"]["out"])
            if r["accepted"]:
                elems += int(m.group(1)) if m else 0
                break
            g += 1
            ev = rows[r["rejected_at"] - 1]
            bad.append(ev)
            # events are independent of each other: go on after the rejected one, and leave out the
            # other events of the same opcode (one report per opcode and path)
            rows = [x for x in rows[r["rejected_at"]:]
                    if not (x.get("op") == ev.get("op") and x.get("x") == ev.get("x") and x.get("e") == ev.get("e"))]
            if not rows or g > 40:
                break
            write_ndjson(tf + ".rest", rows)
            r = T.validate("Trace_Ops", "Trace_Ops.cfg", tf + ".rest", timeout=3000, heap="6g")
        rows = [x for x in read_ndjson(tf)]
        return path, bad, elems, sum(1 for x in rows if x["e"] == "Run")
    out = parallel(val, traces)
    n = 0
    seen = set()
    for path, bad, elems, runs in out:
        ctx.cov["elements_validated"] = ctx.cov.get("elements_validated", 0) + elems
        ctx.cov["traces_validated_against_impl"] += runs
        for ev in bad:
            key = (ev.get("op"), ev.get("x"), ev.get("path"), ev.get("e"))
            if key in seen:
                continue
            seen.add(key)
            sig = dict(op=ev.get("op"), path=ev.get("path"), kind=ev.get("e"))
            k = ctx.match_known(sig)
            if k:
                ctx.known_finding(k["key"], k["what"])
                continue
            n += 1
            rp = ctx.save_replay("%s_%d.ndjson" % (label, n), json.dumps(ev) + "\n")
            ctx.violation("%s: %s x%s on path %s disagrees with the opcode reference (n=%s off=%s): %s" % (
                prop, ev.get("op"), ev.get("x"), ev.get("path"), ev.get("n"), ev.get("off"),
                json.dumps(first_bad_element(ev))[:400]), rp)
    return out


def sanity_model(ctx):
    res = tlc("Test_OrcOps", "Test_OrcOps.cfg", workers=8, timeout=1200, heap="4g")
    if not tlc_ok(res, "Test_OrcOps"):
        rp = ctx.save_replay("sanity.txt", res["out"][-5000:])
        ctx.violation("OrcOps fails its own algebraic sanity property %s" % res["violated"], rp)
        return False
    ctx.add_model(res, "Test_OrcOps")
    return True


def run(ctx):
    ops = int_ops(genops.write())
    import threading
    ok = {}
    th = threading.Thread(target=lambda: ok.setdefault("sanity", sanity_model(ctx)))
    th.start()
    lines = plan(ops, ctx.quick, ctx.seed)
    ctx.cov["plan_lines"] = len(lines)
    ctx.cov["opcodes"] = len(ops)
    ctx.sample(lines[0]); ctx.sample(lines[-1])
    ctx.rng.shuffle(lines)
    traces = run_paths(ctx, lines, ["emu"], "c02")
    validate_ops(ctx, traces, "c02", "C02")
    th.join()
    ctx.cov["exhaustive"] = False
    ctx.cov["rule"] = ("per opcode: all 8-bit values/pairs, all 16-bit first operands, boundary-biased and seeded "
                       "random operands for every size, n in {1,3,7,15,16,17,31,32,33,64,100}, 5 misalignments, x1/x2/x4")
    ctx.assumptions += ["float opcodes are C18's; loads with index maps (loadoff, loadup, ldres) are validated at "
                        "program level by C01/C03", "16-bit binary opcodes: not all 2^32 pairs (sampled second operand)"]


def replay(ctx, path):
    r = T.validate("Trace_Ops", "Trace_Ops.cfg", path)
    ctx.cov["states"] = max(1, r["res"]["distinct"]); ctx.cov["transitions"] = max(1, r["res"]["generated"])
    if not r["accepted"]:
        ctx.violation("replayed Run event rejected", path)
