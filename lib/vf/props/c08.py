"""C08 - Orc is safe to use from many threads at once.

1. TLC model-checks spec/Concurrency.tla (PlusCal; one label per shared access): orc_init's
   double-checked flag, the C11 once protocol, allocator sections under the global mutex,
   with a happens-before ghost (vector clocks).  All interleavings of 2 threads x 2 once
   objects (with termination under fairness) and 3 threads x 1 once object: InitOnce,
   OnceOnce, NoRace, published value seen by every caller, deadlock freedom.  Four
   weakened variants (plain init flag read outside the mutex, no re-check, relaxed store,
   `used` cleared before the lock) must each be refuted.
2. harness/h_threads: 2..16 threads released from a barrier do concurrent orc_init,
   compile/run/free of their own programs, first calls through once-guarded wrappers and
   runs of a shared function, with seeded pre-lock yields (hook H4).  The events, ordered
   by the emit sequence number (taken under the lock for lock-protected hook events), are
   validated by TLC against Trace_Threads (lock discipline, init body once, each OrcOnce
   initialised once and its value seen by every caller, right results) and against
   Trace_CodeMem (the allocator events of all threads form a history CodeMemAbs allows).
3. the same driver on a ThreadSanitizer build (4 runs quick, 12 thorough); a report is a
   Race event, for which the specification has no action: this is what binds the model's
   memory-order constants (atomic init flag, release store) to the code.
"""
import os, json, re
from ..common import *
from .. import trace as T

BASE = dict(Threads="{1, 2}", Onces="{1, 2}", AtomicInitFlag="TRUE", Recheck="TRUE", ReleaseStore="TRUE",
            LockedFree="TRUE")


def cfg(ctx, name, live=False, **kw):
    d = dict(BASE); d.update(kw)
    fn = os.path.join(ctx.work, name + ".cfg")
    with open(fn, "w") as f:
        f.write("SPECIFICATION Spec\nCONSTANTS\n" + "".join("  %s = %s\n" % kv for kv in d.items()) +
                "  defaultInitValue = 0\nINVARIANTS InitOnce OnceOnce NoRace AllocSane\n")
        if live:
            f.write("PROPERTY Termination\n")
    return fn


def models(ctx):
    runs = [("2thr_2once", cfg(ctx, "CC_A", live=True), 4),
            ("3thr_1once", cfg(ctx, "CC_B", Threads="{1, 2, 3}", Onces="{1}"), 8)]
    if not ctx.quick:
        runs.append(("3thr_2once_safety", cfg(ctx, "CC_C", Threads="{1, 2, 3}", Onces="{1, 2}"), 12))
    negs = [("plain init flag", dict(AtomicInitFlag="FALSE"), ("NoRace",)),
            ("no re-check", dict(Recheck="FALSE"), ("OnceOnce", "NoRace")),
            ("relaxed store", dict(ReleaseStore="FALSE"), ("NoRace",)),
            ("used cleared before lock", dict(LockedFree="FALSE"), ("NoRace",))]
    def pos(a):
        name, fn, w = a
        return name, tlc("Concurrency", fn, workers=w, timeout=3000, heap="12g", coverage=(name == "2thr_2once"))
    def neg(a):
        name, kw, want = a
        r = tlc("Concurrency", cfg(ctx, "CC_neg_" + re.sub(r"\W", "_", name), **kw), workers=2, timeout=900)
        return name, r, want
    out = parallel(lambda a: a[0](a[1]), [(pos, r) for r in runs] + [(neg, n) for n in negs])
    for item in out:
        if len(item) == 2:
            name, res = item
            if not tlc_ok(res, "Concurrency " + name):
                rp = ctx.save_replay("model_%s.txt" % name, res["out"][-8000:])
                ctx.violation("Concurrency model (%s) violates %s" % (name, res["violated"]), rp)
            else:
                ctx.add_model(res, "Concurrency_" + name)
        else:
            name, r, want = item
            if r["violated"] not in want:
                raise MachineryError("weakened variant '%s' not refuted (got %s)" % (name, r["violated"]))
            ctx.cov.setdefault("negative_models_refuted", []).append("%s -> %s" % (name, r["violated"]))


def normalise(rows):
    rows = sorted(rows, key=lambda r: r["q"])
    tid = {}
    for r in rows:
        r["t"] = tid.setdefault(r["t"], len(tid) + 1)
    return rows


def drive(ctx, variant, runs, label):
    binary = build_harness("h_threads", variant)
    def one(a):
        i, (nt, no, it, seed) = a
        tf = os.path.join(ctx.work, "%s_%d.ndjson" % (label, i))
        if os.path.exists(tf):
            os.unlink(tf)
        env = {"ORC_VERIF_TRACE": tf, "ORC_VERIF_YIELD": str(seed),
               "TSAN_OPTIONS": "exitcode=0:halt_on_error=0:log_path=%s.tsan" % tf}
        rc, out = sh([binary, str(nt), str(no), str(it), str(seed)], timeout=400, env=env)
        rows = normalise(read_ndjson(tf)) if os.path.exists(tf) else []
        if rc != 0:
            rows.append(dict(q=10**9, t=0, e="Crash", status=rc))
        # ThreadSanitizer reports (auxiliary observer): one Race event per distinct report
        import glob
        seen = set()
        for rp in glob.glob(tf + ".tsan*"):
            for m in re.finditer(r"WARNING: ThreadSanitizer: data race.*?\n(.*?)\n\n", open(rp).read(), re.S):
                locs = tuple(re.findall(r"#0 (\S+) (\S+)", m.group(1))[:2])
                if locs not in seen:
                    seen.add(locs)
                    rows.insert(len(rows) - 1 if rows and rows[-1]["e"] == "End" else len(rows),
                                dict(q=0, t=0, e="Race", where=str(locs)))
        write_ndjson(tf, rows)
        return (nt, no, it, seed), tf, len(rows)
    return parallel(one, list(enumerate(runs)), nproc=4)


def validate(ctx, results, label):
    def val(a):
        cfgr, tf, n = a
        out = []
        for mod, env in (("Trace_Threads", None), ("Trace_CodeMem", {"RSIZE": "65536"})):
            r = T.validate(mod, mod + ".cfg", tf, env=env, timeout=1200)
            ctx.cov["trace_states"] = ctx.cov.get("trace_states", 0) + r["res"]["distinct"]
            if not r["accepted"]:
                rows = read_ndjson(tf)
                out.append((mod, r, rows[min(r["rejected_at"] - 1, len(rows) - 1)], cfgr, tf))
        return out
    bad = [x for l in parallel(val, results, nproc=8) for x in l]
    ok = len(results) - len(set(b[4] for b in bad))
    ctx.cov["traces_validated_against_impl"] += ok
    ctx.cov["events_validated"] = ctx.cov.get("events_validated", 0) + sum(r[2] for r in results)
    for i, (mod, r, ev, cfgr, tf) in enumerate(bad[:5]):
        rp = ctx.save_replay("%s_%d.ndjson" % (label, i), open(tf).read())
        ctx.violation("%s rejects the execution (threads=%d onces=%d iters=%d seed=%d): %s at %s" % (
            mod, cfgr[0], cfgr[1], cfgr[2], cfgr[3], r["why"], json.dumps(ev)[:250]), rp)


def run(ctx):
    models(ctx)
    quick = ctx.quick
    runs = []
    for i in range(24 if quick else 160):
        nt = (2, 3, 4, 8, 16)[i % 5]
        runs.append((nt, 1 + i % 4, 3 if nt >= 8 else 5, ctx.seed * 1000 + i))
    res = drive(ctx, "hook", runs, "thr")
    validate(ctx, res, "thr")
    ctx.sample({"threads": runs[0][0], "onces": runs[0][1], "iters": runs[0][2], "seed": runs[0][3]})
    ctx.cov["thread_runs"] = len(runs)
    # the model's AtomicInitFlag / ReleaseStore constants are bound to the code by ThreadSanitizer:
    # an unsynchronised access is a Race event, for which the specification has no action
    if True:
        truns = [((2, 4, 8)[i % 3], 2, 3, ctx.seed * 77 + i) for i in range(4 if quick else 12)]
        res = drive(ctx, "tsan", truns, "tsan")
        validate(ctx, res, "tsan")
        ctx.cov["tsan_runs"] = len(truns)
    ctx.cov["exhaustive"] = True
    ctx.cov["rule"] = ("all interleavings of the Concurrency model for the thread/once-object counts in models; "
                       "implementation traces = seeded multi-threaded runs with pre-lock yields")
    ctx.assumptions += ["the emit sequence number orders events; hook events inside a critical section take it "
                        "while the lock is held",
                        "memory-order weakening is invisible in x86 executions: it is decided by the model "
                        "and bound to the code by ThreadSanitizer as an observer"]


def replay(ctx, path):
    for mod, env in (("Trace_Threads", None), ("Trace_CodeMem", {"RSIZE": "65536"})):
        r = T.validate(mod, mod + ".cfg", path, env=env)
        ctx.cov["states"] += max(1, r["res"]["distinct"]); ctx.cov["transitions"] += max(1, r["res"]["generated"])
        if not r["accepted"]:
            ctx.violation("replayed trace rejected by %s: %s" % (mod, r["why"]), path)
