"""C18 - float opcodes: IEEE results with flush-to-zero, identical on every path.

spec/OrcFloat.tla defines, bit for bit from the bytes, flushing of denormal operands and
results, comparison masks, min/max selection, float->int truncation with saturation,
int->float rounding to nearest even, float->double, and the NaN rule; the correctly rounded
core of + - * / sqrt and double->float is taken from the host's IEEE arithmetic (field h of the
event, computed on the flushed operands in round-to-nearest) after the specification has
checked the flushing and the sanity of h (every special case, sign, exponent window).
harness/h_ops (modes flt / fpar / fcon) runs one-opcode programs for every float and double
opcode over structured operand tables - all pairs of: zeros, +-denormals, smallest/largest
normals, powers of two, integers near 2^24 / 2^31 / 2^53, rounding ties, infinities, quiet and
signalling NaNs - then seeded random operands; second operand as array, float/double parameter
and constant; x1/x2; n and misalignment varied; on emulation, native sse and avx, and the
gcc-compiled generated C (executor function and NOEXEC body with float/double prototype
arguments).  TLC validates every lane of every event (Trace_Float), and - the event carrying
emulation's destination for the same operands - that lanes with finite operands agree with
emulation bit for bit.
"""
import os, json, re
from ..common import *
from .. import trace as T
from . import c04

OPS = ("addf subf mulf divf sqrtf maxf minf cmpeqf cmpltf cmplef convfl convlf addd subd muld divd sqrtd maxd mind "
       "cmpeqd cmpltd cmpled convdl convld convfd convdf convwf").split()
ORACLE = {"addf", "subf", "mulf", "divf", "sqrtf", "addd", "subd", "muld", "divd", "sqrtd", "convdf"}


def plan(seed, quick):
    L = []
    for o in OPS:
        L.append("%s 1 flt %d" % (o, seed))
        L.append("%s 2 flt %d" % (o, seed + 1))
        L.append("%s 1 fpar %d" % (o, seed + 2))
        L.append("%s 1 fcon %d" % (o, seed + 3))
        if not quick:
            for k in range(1, 6):
                L.append("%s 1 flt %d" % (o, seed + 10 * k))
                L.append("%s 1 fpar %d" % (o, seed + 10 * k + 2))
                L.append("%s 1 fcon %d" % (o, seed + 10 * k + 3))
            L.append("%s 4 flt %d" % (o, seed + 5))
    return L


def key(r):
    return json.dumps([r.get("op"), r.get("x"), r.get("n"), r.get("off"), r.get("sc"), r.get("a"), r.get("b")])


def word(b, i, s):
    v = 0
    for k in range(s):
        v |= b[i * s + k] << (8 * k)
    return v


def classify(ev):
    """why an event was rejected, from the logged fields alone: 'ftz-minnormal' when every lane
    that differs from Flush(h) is a zero where h is the smallest normal number of the same sign"""
    if ev.get("op") not in ORACLE or "h" not in ev:
        return "float"
    sd = ev["sd"]
    n = ev["n"] * ev["x"]
    minn = 0x00800000 if sd == 4 else 0x0010000000000000
    sign = 1 << (8 * sd - 1)
    expm = 0x7f800000 if sd == 4 else 0x7ff0000000000000
    diff = 0
    for i in range(n):
        d = word(ev["d"], i, sd); h = word(ev["h"], i, sd)
        fh = h if (h & expm) else (h & sign)
        if (h & expm) == expm and (h & ~expm & ~sign):
            continue        # NaN: any NaN
        if d == fh:
            continue
        diff += 1
        if not ((h & ~sign) == minn and d == (h & sign)):
            return "float"
    return "ftz-minnormal" if diff else "float"


def run(ctx):
    quick = ctx.quick
    lines = plan(ctx.seed, quick)
    ctx.cov["plan_lines"] = len(lines)
    ctx.cov["opcodes"] = len(OPS)
    ctx.sample(lines[0]); ctx.sample(lines[-1])
    from . import c02
    traces = c02.run_paths(ctx, lines, ["emu", "sse", "avx"], "c18")
    ctraces = c04.c_paths(ctx, "h_ops", lines, "c18c", ("x", "n"), "-O2")
    if not quick:
        ctraces += c04.c_paths(ctx, "h_ops", lines, "c18c", ("x", "n"), "-O0")
    emu = {}
    for p, tf in traces:
        if p == "emu":
            for r in read_ndjson(tf):
                if r.get("e") == "FRun":
                    emu[key(r)] = r["d"]
    # join: every non-emulation event gets emulation's destination for the same operands
    joined = []
    for p, tf in traces + ctraces:
        if p != "emu":
            rows = read_ndjson(tf)
            for r in rows:
                if r.get("e") == "FRun":
                    d = emu.get(key(r))
                    if d is not None:
                        r["demu"] = d
            write_ndjson(tf, rows)
        joined.append((p, tf))

    def val(a):
        path, tf = a
        rows = read_ndjson(tf)
        bad, elems, g = [], 0, 0
        r = T.validate("Trace_Float", "Trace_Float.cfg", tf, timeout=3000, heap="6g")
        st = [r["res"]["distinct"], r["res"]["generated"]]
        while True:
            if "BADORACLE" in r["res"]["out"]:
                m = re.search(r"BADORACLE.*", r["res"]["out"])
                raise MachineryError("the harness's IEEE oracle contradicts OrcFloat: " + m.group(0)[:400])
            if r["accepted"]:
                m = re.search(r'"ELEMENTS", (\d+)', r["res"]["out"])
                elems += int(m.group(1)) if m else 0
                break
            g += 1
            ev = rows[r["rejected_at"] - 1]
            ev["_class"] = classify(ev) if ev.get("e") == "FRun" else ev.get("e")
            bad.append(ev)
            rows = [x for x in rows[r["rejected_at"]:]
                    if not (x.get("op") == ev.get("op") and x.get("e") == ev.get("e") and
                            (classify(x) if x.get("e") == "FRun" else "") == ev["_class"])] \
                if ev["_class"] == "ftz-minnormal" else \
                [x for x in rows[r["rejected_at"]:] if not (x.get("op") == ev.get("op") and x.get("e") == ev.get("e"))]
            if not rows or g > 60:
                break
            write_ndjson(tf + ".rest", rows)
            r = T.validate("Trace_Float", "Trace_Float.cfg", tf + ".rest", timeout=3000, heap="6g")
        allr = read_ndjson(tf)
        return (path, bad, elems, sum(1 for x in allr if x["e"] == "FRun"),
                [x for x in allr if x["e"] in ("NoCode", "Died")], st,
                sum(1 for x in allr if x["e"] == "FRun" and x.get("csr", 8064) != 8064))
    n = 0
    seen = set()
    for path, bad, elems, runs, others, st, csr in parallel(val, joined):
        ctx.cov["elements_validated"] = ctx.cov.get("elements_validated", 0) + elems
        ctx.cov["traces_validated_against_impl"] += runs
        ctx.cov["states"] += st[0]; ctx.cov["transitions"] += st[1]
        if csr:
            ctx.info("%s: %d runs returned with MXCSR control bits other than the default (C10's observable)" % (path, csr))
        for ev in others:
            if ev["e"] == "Died":
                rp = ctx.save_replay("died.ndjson", json.dumps(ev) + "\n")
                ctx.violation("C18: plan line '%s' died with signal %s on path %s" % (ev.get("plan"), ev.get("sig"), path), rp)
            else:
                ctx.cov["no_code"] = ctx.cov.get("no_code", 0) + 1
        for ev in bad:
            kk = (ev.get("op"), path, ev.get("_class"))
            if kk in seen:
                continue
            seen.add(kk)
            sig = dict(op=ev.get("op"), path=path.split("-")[0], kind=ev.get("_class"))
            k = ctx.match_known(sig)
            if k:
                ctx.known_finding(k["key"], k["what"]); continue
            n += 1
            ev2 = {k2: v for k2, v in ev.items() if k2 != "_class"}
            rp = ctx.save_replay("float_%d.ndjson" % n, json.dumps(ev2) + "\n")
            ctx.violation("C18: %s x%s on path %s: a lane is not what OrcFloat gives%s (n=%s off=%s, second operand %s) [%s]" % (
                ev.get("op"), ev.get("x"), path, " or differs from emulation on finite operands" if "demu" in ev else "",
                ev.get("n"), ev.get("off"), "scalar" if ev.get("sc") else "array", ev.get("_class")), rp)
    ctx.cov["exhaustive"] = False
    ctx.cov["rule"] = ("27 float/double opcodes x all pairs of the structured operand tables (60 floats, 56 doubles, 40 "
                       "integers) + seeded random x {array, parameter, constant} second operand x x1/x2 x "
                       "{emulation, sse, avx, generated C: executor and NOEXEC forms}")
    ctx.assumptions += ["the correctly rounded core of + - * / sqrt and double->float on numbers is the host's IEEE "
                        "arithmetic (checked for sanity by the specification, not re-derived)",
                        "NaN payloads and the result of converting a NaN to an integer are unconstrained"]


def replay(ctx, path):
    r = T.validate("Trace_Float", "Trace_Float.cfg", path)
    ctx.cov["states"] = max(1, r["res"]["distinct"]); ctx.cov["transitions"] = max(1, r["res"]["generated"])
    if not r["accepted"]:
        ctx.violation("replayed FRun event rejected by Trace_Float", path)
