"""C17 - compilation is deterministic and independent of history.

The determinism ghost `image` of Trace_OrcSystem: the first successful compile of a key
(program, target) fixes the digests of the machine code and of the listing; every later
compile of the same key -- after whatever other compiles, frees, resets, take_code the
history contains, in whatever process (placement differs through ASLR and through the
allocator state), under ORC_DEBUG 0/3/6 -- must reproduce both.  Histories are
TLC-generated from OrcSystem (edge cover of the 1-program graph with all registered
targets + seeded simulation of the 2-program / 2-code model), replayed through the real
API; run events must keep giving the right result.
"""
import os, json
from ..common import *
from .. import orcsys as O
from .c16 import report

NONEXEC = ("c", "c64x-c", "neon", "mips", "altivec")
ALLT = ("avx", "sse", "mmx", "c", "neon", "mips", "altivec", "null")


def strip_unrunnable(ops):
    """drop run steps whose code was compiled for a target this CPU cannot execute (a run has
    no effect on the model state, so the remaining behaviour is still one of the model's)"""
    tgt, ctgt, out = {}, {}, []
    for o in ops:
        if o["op"] == "compile":
            tgt[o["p"]] = o["a"].split("/")[0]
        elif o["op"] == "take":
            ctgt[int(o["a"])] = tgt.get(o["p"])
        if o["op"] == "run" and tgt.get(o["p"]) in NONEXEC:
            continue
        if o["op"] == "runc" and ctgt.get(o["p"]) in NONEXEC:
            continue
        out.append(o)
    return out


def run(ctx):
    quick = ctx.quick
    cfg = O.write_cfg(ctx, "OS_mc", 2, 1, ("avx", "sse", "null"), ("jit", "backup", "emulate"))
    res = tlc("OrcSystem", cfg, workers=8, timeout=3000, heap="8g")
    if not tlc_ok(res, "OrcSystem"):
        rp = ctx.save_replay("model.txt", res["out"][-8000:])
        ctx.violation("design-level model violates %s" % res["violated"], rp)
        return
    ctx.add_model(res, "OrcSystem")
    edges, r1 = O.gen_edges(ctx, targets=ALLT, modes=("jit",))
    behs = [b for b in O.maximal(edges) if sum(1 for o in b[2] if o["op"] == "compile") >= 2]
    sims, r2 = O.gen_sim(ctx, 600 if quick else 10000, 16, targets=ALLT, modes=("jit", "backup"), seed=ctx.seed)
    ctx.cov["behaviours_with_recompiles_1prog"] = len(behs)
    if quick and len(behs) > 6000:
        ctx.rng.shuffle(behs)
        behs = behs[:6000]
    allb = [(m, e, strip_unrunnable(ops)) for m, e, ops in behs + sims]
    lines = [O.render(m, ops) for m, e, ops in allb]
    ctx.sample(lines[0]); ctx.sample(lines[-1])
    dbg = ["0", "3", "6"]
    # every second process also compiles and frees other programs (the whole opcode table in turn, six
    # one-instruction programs before each compile op of the behaviour): "whatever was compiled before"
    # includes programs that are not the one under test, and state a back end keeps between compiles
    # (static buffers, caches) only shows when some other program has left something in it
    tfs = O.replay(ctx, "hook", lines, "c17",
                   env_of_shard=lambda i: {"ORC_DEBUG": dbg[i % 3], "H_POLLUTE": ("6" if quick else "2") if i % 2 else "0"})
    # one validation over everything: the image ghost then spans processes and debug levels
    allf = os.path.join(ctx.work, "c17_all.ndjson")
    with open(allf, "w") as f:
        for tf in tfs:
            f.write(open(tf).read())
    parts = [allf]
    fails = []
    for i, pf in enumerate(parts):
        fails += O.validate(ctx, pf, ["C17"], "c17_%d" % i)
    report(ctx, fails, "c17", "C17")
    ctx.cov["replayed_behaviours"] = len(lines)
    ctx.cov["orc_debug_levels"] = dbg
    ctx.cov["foreign_compiles"] = "odd shards: 6 one-opcode programs (sys opcode table in turn) compiled and freed before every compile op"
    ctx.cov["targets"] = list(ALLT)
    ctx.cov["exhaustive"] = False
    ctx.cov["rule"] = ("behaviours = TLC edge cover of the 1-program OrcSystem graph over all registered targets "
                       "(those with >= 2 compiles) + seeded simulations of the 2-program model; a behaviour is "
                       "non-trivial when it recompiles a key after other operations")


def replay(ctx, path):
    fails = O.validate(ctx, path, ["C17"], "replay")
    ctx.cov["states"] = max(1, ctx.cov.get("trace_states", 1)); ctx.cov["transitions"] = ctx.cov["states"]
    for seg, bad, why in fails:
        ctx.violation("replayed trace rejected: %s at %s" % (why, json.dumps(bad)[:200]), path)
