"""C09 - code memory stays consistent over any history of compiles and frees.

1. TLC model-checks spec/CodeMem.tla (implementation-shaped, first-fit chunk lists):
   invariants Tiling, Coalesced, UsedIsLive, RegionBound and refinement of the
   property-level spec CodeMemAbs.
2. The same run dumps one behaviour per edge of the reachable graph; the maximal ones are
   replayed into the real allocator (fresh child per behaviour) by harness/h_codemem.
3. The recorded traces (hook events emitted under the global mutex + the harness's own
   observations through OrcCode fields and the walker) are validated by TLC against
   spec/Trace_CodeMem.tla, i.e. against CodeMemAbs.
4. Long seeded histories of real compile / take_code / free are recorded and validated
   the same way; every live function is re-executed and re-hashed after every step.
"""
import os, json
from ..common import *
from .. import trace as T

UNIT = 16384


def model_cfg(ctx, handles, rsize, maxreg, sizes, dump, maxhist=0):
    fn = os.path.join(ctx.work, "MC_CodeMem_%d_%d%s.cfg" % (handles, maxreg, "_dump" if dump else ""))
    with open(fn, "w") as f:
        f.write("SPECIFICATION Spec\nCONSTANTS\n  Handles = {%s}\n  RSize = %d\n  MaxRegions = %d\n"
                "  Sizes = {%s}\n  OsMayFail = TRUE\n  MaxHist = %d\n  DumpFile = \"%s\"\n" % (
                    ",".join(str(i) for i in range(1, handles + 1)), rsize, maxreg,
                    ",".join(str(s) for s in sizes), maxhist, dump))
        f.write("VIEW View\nCHECK_DEADLOCK FALSE\n")
        if dump:
            # the dump run only enumerates the graph; the invariants are checked by the other run
            f.write("ACTION_CONSTRAINT RecEdge\nPOSTCONDITION DumpPost\n")
        else:
            f.write("INVARIANTS Tiling Coalesced UsedIsLive RegionBound AbsNoOverlap AbsTypeOK\n"
                    "PROPERTY AbsSpec\n")
        if maxhist:
            f.write("CONSTRAINT Bounded\n")
    return fn


def behaviours_from_edges(edges):
    """maximal operation sequences (drop every path that is a proper prefix of another)"""
    paths = set()
    for e in edges:
        p = tuple((o["op"], o["h"], o["size"]) for o in e["path"])
        paths.add(p)
    prefixes = set()
    for p in paths:
        for k in range(1, len(p)):
            prefixes.add(p[:k])
    return sorted(p for p in paths if p not in prefixes)


def render(path):
    out = []
    for op, h, size in path:
        if op == "A":
            out.append("A %d %d" % (h, size))
        elif op == "F":
            out.append("F %d" % h)
        # "N" (the OS refuses a region) needs fault injection: exercised by C06
    return ";".join(out)


def run_shard(args):
    ctx, binary, idx, lines = args
    bf = os.path.join(ctx.work, "beh_%d.txt" % idx)
    tf = os.path.join(ctx.work, "trace_%d.ndjson" % idx)
    with open(bf, "w") as f:
        f.write("\n".join(lines) + "\n")
    if os.path.exists(tf):
        os.unlink(tf)
    rc, out = sh([binary, "replay", bf], timeout=1200, env={"ORC_VERIF_TRACE": tf})
    if rc not in (0, 3):
        raise MachineryError("h_codemem replay failed rc=%d: %s" % (rc, out[-2000:]))
    return tf


def validate_file(ctx, tf, label, rerun=None):
    """validate one trace file; on rejection isolate the failing segment, re-run it, report"""
    rows = read_ndjson(tf)
    if not rows:
        raise MachineryError("empty trace " + tf)
    r = T.validate("Trace_CodeMem", "Trace_CodeMem.cfg", tf, env={"RSIZE": "65536"})
    ctx.cov["trace_states"] = ctx.cov.get("trace_states", 0) + r["res"]["distinct"]
    nseg = sum(1 for x in rows if x.get("e") == "Reset")
    if r["accepted"]:
        ctx.cov["traces_validated_against_impl"] += nseg
        ctx.cov["events_validated"] = ctx.cov.get("events_validated", 0) + len(rows)
        return True
    s, e = T.segment_of(rows, r["rejected_at"])
    seg = rows[s:e]
    bad = rows[min(r["rejected_at"] - 1, len(rows) - 1)]
    rp = ctx.save_replay(label + ".ndjson", "\n".join(json.dumps(x) for x in seg) + "\n")
    # confirm on the isolated segment (a rejection is reported only if it repeats)
    r2 = T.validate("Trace_CodeMem", "Trace_CodeMem.cfg", rp, env={"RSIZE": "65536"})
    if r2["accepted"]:
        raise MachineryError("rejection of %s did not repeat on the isolated segment" % tf)
    ctx.violation("trace of the real allocator rejected by CodeMemAbs (%s) at event %s" % (
        r["why"], json.dumps(bad)[:300]), rp)
    return False


def run(ctx):
    binary = build_harness("h_codemem", "hook")
    quick = ctx.quick
    # ---- 1. design-level model checking + behaviour dump
    dump = os.path.join(ctx.work, "edges.ndjson")
    nh = 3 if quick else 4
    cfg = model_cfg(ctx, nh, 4, 3, [1, 2, 3, 4, 5], "")
    # behaviours for replay come from the 3-handle graph in both tiers (the single-worker dump of the 4-handle
    # graph does not finish in an hour); the thorough tier model-checks 4 handles and replays every behaviour
    cfgd = model_cfg(ctx, 3, 4, 3, [1, 2, 3, 4, 5], dump)
    res, resd = parallel(lambda a: tlc("CodeMem", a[0], workers=a[1], timeout=3000, heap="8g",
                                       coverage=a[2]),
                         [(cfg, 8, quick), (cfgd, 1, False)])
    if not tlc_ok(res, "CodeMem model"):
        rp = ctx.save_replay("model.txt", res["out"][-8000:])
        ctx.violation("design-level model violates %s" % res["violated"], rp)
        return
    tlc_ok(resd, "CodeMem dump")
    ctx.add_model(res, "CodeMem")
    if quick:
        for act in ("DoAlloc", "DoNoMem", "Free"):
            if res["coverage"].get(act, (0, 0))[1] == 0:
                raise MachineryError("vacuous model: action %s never taken" % act)
    edges = read_ndjson(dump)
    behs = behaviours_from_edges(edges)
    ctx.cov["edges"] = len(edges)
    ctx.cov["behaviours"] = len(behs)
    lines = [render(p) for p in behs]
    lines = [l for l in lines if l]
    if quick and len(lines) > 2500:
        # deterministic, seed-dependent sample; the longest behaviours always stay
        lines.sort(key=len, reverse=True)
        keep = lines[:500]
        rest = lines[500:]
        ctx.rng.shuffle(rest)
        lines = keep + rest[:2000]
    ctx.sample({"behaviour": lines[0], "units": "1 unit = 16384 bytes"})
    # ---- 2./3. replay + validation
    shards = [(ctx, binary, i, c) for i, c in enumerate(chunks(lines, NCPU))]
    tfiles = parallel(run_shard, shards)
    ok = parallel(lambda a: validate_file(ctx, a[1], "replay_shard%d" % a[0]), list(enumerate(tfiles)))
    ctx.cov["replayed_behaviours"] = len(lines)
    # ---- 4. long histories of real compiles
    nhist = 4 if quick else 16
    nops = 1500 if quick else 12000
    def hist(i):
        tf = os.path.join(ctx.work, "hist_%d.ndjson" % i)
        if os.path.exists(tf):
            os.unlink(tf)
        rc, out = sh([binary, "history", str(ctx.seed * 1000 + i), str(nops), str(6 + 5 * (i % 4))],
                     timeout=1500, env={"ORC_VERIF_TRACE": tf})
        if rc != 0:
            rows = read_ndjson(tf) if os.path.exists(tf) else []
            rp = ctx.save_replay("hist_%d_crash.ndjson" % i, "\n".join(json.dumps(x) for x in rows[-50:]))
            ctx.violation("history harness died (rc=%d) after %d events: %s" % (rc, len(rows), out[-300:]), rp)
            return False
        return validate_file(ctx, tf, "hist_%d" % i)
    parallel(hist, list(range(nhist)))
    ctx.cov["history_ops"] = nhist * nops
    ctx.cov["exhaustive"] = True
    ctx.cov["rule"] = ("TLC enumerates every reachable state of the first-fit chunk-list model "
                       "(constants in models.CodeMem); every edge's shortest behaviour is dumped and "
                       "the maximal ones replayed into liborc; each replay/history is one trace "
                       "validated against CodeMemAbs")
    ctx.assumptions += ["hook events Alloc/Free/NewRegion report the allocator's own bookkeeping "
                        "(emitted under the global mutex)",
                        "exhaustive refers to the bounded model, quick tier replays a seeded sample "
                        "of behaviours when there are more than 2500"]


def replay(ctx, path):
    r = T.validate("Trace_CodeMem", "Trace_CodeMem.cfg", path, env={"RSIZE": "65536"})
    ctx.cov["states"] = max(1, r["res"]["distinct"]); ctx.cov["transitions"] = max(1, r["res"]["generated"])
    if not r["accepted"]:
        ctx.violation("replayed trace rejected: " + r["why"], path)
