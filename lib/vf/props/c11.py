"""C11 - target feature flags bound the instructions that are emitted.

spec/IsaFlags.tla holds the ISA-level table (mnemonic x register class -> required feature)
and what each Orc target flag grants; TLC checks the table is a function, enumerates every flag
subset of every x86 target (28 configurations: sse 16, avx 4, mmx 8) and prints them.  For each
configuration harness/h_ops compiles every opcode in every operand-kind / prefix form
(orc_program_compile_full with exactly those flags): integer opcodes with array / parameter /
constant second operand, x1/x2/x4, float and double opcodes, plus frame-pointer / short-jump
variants; the listing of every program that still compiles is tokenised into (mnemonic, class)
events and TLC validates each against the table (Trace_Isa).  For the second half of the
property the same programs are run under the flag subsets (the host supports all of them) and
TLC validates every element against the reference semantics (Trace_Ops / Trace_Float): the
results cannot depend on the subset if each equals the reference.
"""
import os, json, re, glob
from ..common import *
from .. import trace as T
from .. import genops
from . import c02, c18

B64 = 1 << 9
FP = 1 << 7
SJ = 1 << 8


def configs(ctx):
    res = tlc("IsaFlags", "MC_IsaFlags.cfg", workers=1, timeout=600)
    if not tlc_ok(res, "IsaFlags"):
        rp = ctx.save_replay("isaflags.txt", res["out"][-4000:])
        ctx.violation("IsaFlags violates %s" % res["violated"], rp)
        return []
    ctx.add_model(res, "IsaFlags")
    return [json.loads(json.loads(l)[4:]) for l in res["out"].splitlines() if l.startswith('"CFG ')]


def tokenise(text):
    seen = []
    s_ = set()
    for line in text.splitlines():
        s = line.strip()
        if not s or s.startswith("#") or s.startswith(".") or s.endswith(":"):
            continue
        parts = s.split(None, 1)
        mn = parts[0]
        ops = parts[1] if len(parts) > 1 else ""
        cls = "ymm" if "%ymm" in ops else "xmm" if "%xmm" in ops else "mm" if re.search(r"%mm[0-7]", ops) else "gp"
        if (mn, cls) not in s_:
            s_.add((mn, cls)); seen.append((mn, cls))
    return seen


def run(ctx):
    quick = ctx.quick
    cfgs = configs(ctx)
    if not cfgs:
        return
    ops = genops.write()
    iops = c02.int_ops(ops)
    lines = [l for l in c02.plan(iops, True, ctx.seed) if l.split()[2] in ("bnd", "par", "con")] + c18.plan(ctx.seed, True)
    ctx.cov["configurations"] = len(cfgs)
    ctx.cov["plan_lines"] = len(lines)
    ctx.sample(lines[0]); ctx.sample(json.dumps(cfgs[0]))
    binary = build_harness("h_ops", "hook")
    paths = []
    for c in cfgs:
        paths.append(("%s@%d" % (c["target"], c["flags"] | B64), c, True))
    # frame pointer / short jumps: code generation options that must not change the instruction set used
    for c in cfgs:
        if c["flags"] in (31, 1024 + 2048 + 31, 1 + 2 + 16 + 32):
            paths.append(("%s@%d" % (c["target"], c["flags"] | B64 | FP), c, True))
            paths.append(("%s@%d" % (c["target"], c["flags"] | B64 | SJ), c, True))
    # run (not only compile) a sample of configurations in the quick tier, all in the thorough tier
    runset = set(p for p, c, _ in paths) if not quick else set(
        p for p, c, _ in paths if c["flags"] in (1, 1 + 4, 1 + 4 + 8, 31, 1024 + 1, 1024 + 2048 + 31, 1 + 2, 1 + 2 + 16 + 32, 1 + 16)
        and not (int(p.split("@")[1]) & (FP | SJ)))
    runlines = lines if not quick else [l for l in lines if l.split()[2] in ("bnd", "flt", "par", "con") and l.split()[1] == "1"]

    def one(a):
        p, c, _ = a
        tag = p.replace("@", "_")
        d = os.path.join(ctx.work, "lst_" + tag)
        if os.path.isdir(d):
            for f in glob.glob(d + "/*.s"):
                os.unlink(f)
        os.makedirs(d, exist_ok=True)
        tf = os.path.join(ctx.work, "isa_%s.ndjson" % tag)
        pf = os.path.join(ctx.work, "isa_%s.plan" % tag)
        open(pf, "w").write("\n".join(lines) + "\n")
        if os.path.exists(tf):
            os.unlink(tf)
        rc, out = sh([binary, p, pf], timeout=3000, env={"ORC_VERIF_TRACE": tf, "H_LISTDIR": d, "H_NORUN": "1"})
        if rc != 0:
            raise MachineryError("h_ops failed rc=%d %s" % (rc, out[-800:]))
        rows = []
        nl = 0
        for r in read_ndjson(tf):
            if r.get("e") == "Listing":
                nl += 1
                rows.append(dict(e="L", target=c["target"], flags=c["flags"], op=r["op"], mode=r["mode"], path=p))
                for mn, cls in tokenise(open(r["file"]).read()):
                    rows.append(dict(e="M", m=mn, cls=cls))
        for f in glob.glob(d + "/*.s"):
            os.unlink(f)
        wf = tf + ".w"
        write_ndjson(wf, rows)
        r = T.validate("Trace_Isa", "Trace_Isa.cfg", wf, timeout=2500, heap="4g")
        unk = sorted(set(re.findall(r'<<"UNKNOWN", "([^"]+)", "([^"]+)">>', r["res"]["out"])))
        bad = [(int(i), f) for i, f in re.findall(r'<<"BAD", (\d+), "([^"]+)">>', r["res"]["out"])]
        out = []
        for i, feat in bad:
            k = i - 1
            s = k
            while s > 0 and rows[s]["e"] != "L":
                s -= 1
            out.append((rows[k], rows[s], feat))
        if not r["accepted"]:
            raise MachineryError("Trace_Isa did not consume %s (line %s)" % (wf, r["rejected_at"]))
        return p, c, out, unk, nl, r["res"]["distinct"], r["res"]["generated"]
    results = parallel(one, paths)
    unknown = set()
    seen = {}
    for p, c, bad, unk, nl, st, tr in results:
        ctx.cov["states"] += st; ctx.cov["transitions"] += tr
        ctx.cov["listings_checked"] = ctx.cov.get("listings_checked", 0) + nl
        unknown |= set(unk)
        for m, L, feat in bad:
            key = (c["target"], m["m"], m["cls"], feat)
            seen.setdefault(key, []).append((L, c))
    if unknown:
        raise MachineryError("IsaFlags has no entry for: %s" % sorted(unknown))
    n = 0
    for (tgt, mn, cls, feat), lst in sorted(seen.items()):
        opsl = sorted(set(L["op"] for L, c in lst))
        flagsl = sorted(set(c["flags"] for L, c in lst))
        sig = dict(target=tgt, m=mn, cls=cls, kind="isa")
        k = ctx.match_known(sig)
        if k:
            ctx.known_finding(k["key"], k["what"]); continue
        n += 1
        L, c = lst[0]
        rp = ctx.save_replay("isa_%d.ndjson" % n, json.dumps(L) + "\n" + json.dumps(dict(e="M", m=mn, cls=cls)) + "\n")
        ctx.violation("C11: %s code contains %s (%s registers), which needs %s, under flags that do not grant it: "
                      "flag sets %s, opcodes %s" % (tgt, mn, cls, feat, flagsl[:8], ", ".join(opsl[:8])), rp)
    # results under the flag subsets
    runpaths = sorted(runset)
    ctx.cov["configurations_run"] = len(runpaths)
    traces = c02.run_paths(ctx, runlines, runpaths, "c11run")
    ints = [(p, tf) for p, tf in traces]
    c02.validate_ops(ctx, ints, "c11run", "C11")
    def fval(a):
        p, tf = a
        rows = [r for r in read_ndjson(tf) if r.get("e") in ("FRun", "Reset", "End")]
        if not any(r.get("e") == "FRun" for r in rows):
            return p, [], 0
        ff = tf + ".f"
        write_ndjson(ff, rows)
        bad = []
        g = 0
        r = T.validate("Trace_Float", "Trace_Float.cfg", ff, timeout=3000, heap="6g")
        while not r["accepted"] and g < 40:
            if "BADORACLE" in r["res"]["out"]:
                raise MachineryError("float oracle contradicts OrcFloat")
            g += 1
            ev = rows[r["rejected_at"] - 1]
            ev["_class"] = c18.classify(ev)
            bad.append(ev)
            rows = [x for x in rows[r["rejected_at"]:] if not (x.get("op") == ev.get("op") and c18.classify(x) == ev["_class"])] \
                if ev["_class"] == "ftz-minnormal" else [x for x in rows[r["rejected_at"]:] if x.get("op") != ev.get("op")]
            if not rows:
                break
            write_ndjson(ff, rows)
            r = T.validate("Trace_Float", "Trace_Float.cfg", ff, timeout=3000, heap="6g")
        return p, bad, sum(1 for x in read_ndjson(tf) if x.get("e") == "FRun")
    for p, bad, runs in parallel(fval, traces):
        ctx.cov["traces_validated_against_impl"] += runs
        for ev in bad:
            if ev["_class"] == "ftz-minnormal":
                # the same under every flag subset (hardware flush-to-zero, C18's finding F20): not a C11 matter
                continue
            n += 1
            rp = ctx.save_replay("isa_float_%d.ndjson" % n, json.dumps({k2: v for k2, v in ev.items() if k2 != "_class"}) + "\n")
            ctx.violation("C11: %s compiled for %s gives other results than the float reference" % (ev.get("op"), p), rp)
    # multi-instruction programs on the fallback rules of reduced flag sets (register sharing between operands)
    from . import c01
    sl = c01.systematic_plan(ops, True)
    ctx.cov["systematic_programs"] = len(sl)
    ptr = c01.run_progs(ctx, sl, ["sse@%d" % (1 | B64), "sse@%d" % (1 | 4 | B64), "mmx@%d" % (1 | 2 | B64)] +
                        ([] if quick else ["sse@%d" % (f | B64) for f in (3, 9, 13, 17, 25)] + ["mmx@%d" % (f | B64) for f in (19, 35, 51)]),
                        "c11prog")
    c01.validate_progs(ctx, ptr, "c11prog", "C11")
    ctx.cov["exhaustive"] = False
    ctx.cov["rule"] = ("every flag subset of sse (16), avx (4), mmx (8) + frame-pointer / short-jump variants x every "
                       "integer opcode {array, parameter, constant} x x1/x2/x4 and every float/double opcode: all listings "
                       "checked against the ISA table; results validated for %d configurations" % len(runpaths))
    ctx.assumptions += ["64-bit code only (32-bit listings are not generated: the library is built for x86-64)",
                        "mnemonic classification by the widest vector register class among the operands",
                        "multi-instruction programs are not part of this check (sampled by C01 under default flags)"]


def replay(ctx, path):
    r = T.validate("Trace_Isa", "Trace_Isa.cfg", path)
    ctx.cov["states"] = max(1, r["res"]["distinct"]); ctx.cov["transitions"] = max(1, r["res"]["generated"])
    if '"BAD"' in r["res"]["out"] or not r["accepted"]:
        ctx.violation("replayed listing contains an instruction its flags do not grant", path)
