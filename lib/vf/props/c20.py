"""C20 - application-registered opcodes and rules behave like built-in ones.

1. TLC model-checks spec/Registry.tla over all registration histories within bounds (2 extra
   opcode sets of 1-2 names drawn from {new name, proper prefix of a built-in name,
   extension of a built-in name, a built-in name itself}; rule sets for any registered set
   with required flags {}, {present flag}, {absent flag}): BuiltinNamesStable,
   BuiltinRulesStable, NewestSatisfiedWins, AppFound.
2. Seeded TLC simulation yields histories (2 opcode sets + 3 rule sets each); every history is
   replayed in a fresh process of the ASan build: real opcode tables with self-identifying
   emulation functions, real rule sets for the sse target with self-identifying emitters.
3. TLC validates the recorded events against Trace_Registry: the specification's Find and
   Rule must equal what orc_opcode_find_by_name / orc_target_get_rule return, which
   emulation function and which emitter actually ran for a program using each name, and
   all results (emulated and native) must be right; built-ins unaffected.
"""
import os, json
from ..common import *
from .. import trace as T

APP = '{"myop", "addus", "addbx", "addb"}'


def cfg(ctx, name, maxsets, maxrs, simdepth, view):
    fn = os.path.join(ctx.work, name + ".cfg")
    open(fn, "w").write("SPECIFICATION Spec\nCONSTANTS\n AppNames = %s\n MaxSets = %d\n MaxRuleSets = %d\n"
                        " TargetFlags = {\"F1\"}\n SimDepth = %d\nINVARIANTS BuiltinNamesStable BuiltinRulesStable "
                        "NewestSatisfiedWins AppFound%s\n%sCHECK_DEADLOCK FALSE\n" % (
                            APP, maxsets, maxrs, simdepth, " SimDump" if simdepth else "", "VIEW View\n" if view else ""))
    return fn


def render(h):
    out = []
    for o in h:
        if o["op"] == "S":
            out.append("S " + ",".join(o["names"]))
        else:
            req = "".join(sorted(o["req"])) if o["req"] else "0"
            out.append("R %d %s %s" % (o["major"], req, o["cov"][0]))
    return ";".join(out)


def run(ctx):
    quick = ctx.quick
    res = tlc("Registry", cfg(ctx, "REG_mc", 3, 3 if quick else 4, 0, True), workers=8, timeout=3000, heap="8g")
    if not tlc_ok(res, "Registry"):
        rp = ctx.save_replay("model.txt", res["out"][-6000:])
        ctx.violation("Registry design model violates %s" % res["violated"], rp)
        return
    ctx.add_model(res, "Registry")
    hs = []
    for depth, n in ((5, 700 if quick else 6000), (3, 150 if quick else 800)):
        sim = tlc("Registry", cfg(ctx, "REG_sim%d" % depth, 3, 4, depth, False), workers=1, timeout=1200,
                  simulate=n, depth=depth + 1, seed=ctx.seed)
        tlc_ok(sim, "Registry simulation")
        for l in sim["out"].splitlines():
            if l.startswith('"HIST '):
                hs.append(json.loads(json.loads(l)[5:]))
    lines = sorted(set(render(h) for h in hs))
    ctx.cov["distinct_histories"] = len(lines)
    ctx.sample(lines[0]); ctx.sample(lines[len(lines) // 2])
    binary = build_harness("h_registry", "asan")
    def one(a):
        i, ls = a
        bf = os.path.join(ctx.work, "reg_%d.txt" % i)
        tf = os.path.join(ctx.work, "reg_%d.ndjson" % i)
        open(bf, "w").write("\n".join(ls) + "\n")
        if os.path.exists(tf):
            os.unlink(tf)
        rc, out = sh([binary, bf], timeout=1200, env={"ORC_VERIF_TRACE": tf, "ASAN_OPTIONS": "exitcode=99:detect_leaks=0"})
        if rc not in (0, 3):
            raise MachineryError("h_registry failed rc=%d %s" % (rc, out[-800:]))
        return tf
    tfs = parallel(one, list(enumerate(chunks(lines, NCPU))))
    def val(tf):
        rows = read_ndjson(tf)
        bad = []
        r = T.validate("Trace_Registry", "Trace_Registry.cfg", tf, timeout=1200)
        ctx.cov["trace_states"] = ctx.cov.get("trace_states", 0) + r["res"]["distinct"]
        g = 0
        while not r["accepted"] and g < 6:
            g += 1
            s, e = T.segment_of(rows, r["rejected_at"])
            bad.append((rows[s:e], rows[min(r["rejected_at"] - 1, len(rows) - 1)]))
            rows = rows[:s] + rows[e:]
            if not rows:
                break
            write_ndjson(tf + ".rest", rows)
            r = T.validate("Trace_Registry", "Trace_Registry.cfg", tf + ".rest", timeout=1200)
        return bad, sum(1 for x in rows if x["e"] == "Query")
    n = 0
    for bad, good in parallel(val, tfs):
        ctx.cov["traces_validated_against_impl"] += good
        for seg, ev in bad[:2]:
            n += 1
            hist = ";".join(("S " + ",".join(x["names"])) if x["e"] == "RegSet" else
                            ("R %d %s %s" % (x["major"], "".join(sorted(x["req"])) or "0", x["cov"][0]))
                            for x in seg if x["e"] in ("RegSet", "RegRule"))
            rp = ctx.save_replay("registry_%d.ndjson" % n, "\n".join(json.dumps(x) for x in seg) + "\n")
            ctx.violation("registry behaviour differs from the specification after history [%s]: %s" % (
                hist, json.dumps(ev)[:400]), rp)
    ctx.cov["exhaustive"] = True
    ctx.cov["rule"] = ("design level: all registration histories within the bounds in models.Registry; replay: "
                       "distinct seeded TLC simulations (2 opcode sets + 3 rule sets, and shorter ones)")


def replay(ctx, path):
    r = T.validate("Trace_Registry", "Trace_Registry.cfg", path)
    ctx.cov["states"] = max(1, r["res"]["distinct"]); ctx.cov["transitions"] = max(1, r["res"]["generated"])
    if not r["accepted"]:
        ctx.violation("replayed registry trace rejected", path)
