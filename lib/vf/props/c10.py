"""C10 - generated functions honour the C calling convention (x86-64 System V).

spec/Abi.tla gives the effect of the instructions that matter on the state a caller relies on
(callee-saved registers, stack balance, MXCSR control bits with the executor slots and
registers the saved value travels through, x87/MMX state); spec/AbiGen.tla is the disciplined
code generator over it, model-checked for every set of used callee-saved registers, float /
MMX or not (ReturnsPreserved).  Conformance, both directions of evidence from the real code:
 1. every listing orc_program_get_asm_code returns for the programs below is tokenised into
    push / pop / register writes / MXCSR moves / MMX / emms / ret and replayed through Abi's
    actions; at ret, Preserved must hold (Trace_Abi);
 2. every program is called through an assembly trampoline (harness/h_abi) that seeds rbx, rbp,
    r12-r15 and MXCSR (five control settings incl. FTZ/DAZ already on, round-down), lays 32
    pattern words on the caller's stack, clears DF, and records registers, rsp, RFLAGS, MXCSR,
    the x87 tag word after the call; sources are checksummed, the executor lies between canary
    pages.  TLC checks each Call event (CallOK).
Programs: the corpus of testsuite/test.orc, orc/orcfunctions.orc and the examples, plus
generated programs with up to 4 destinations and 8 sources (pointer registers spill into every
callee-saved register), float / double programs, 2-D, accumulators, resampling loads; on sse,
avx and mmx; n in {0,1,3,8,17,64,100}, m in {1,3}.
"""
import os, json, re, glob
from ..common import *
from .. import trace as T

R64 = {}
for base, names in {"rax": "rax eax ax al ah", "rbx": "rbx ebx bx bl bh", "rcx": "rcx ecx cx cl ch", "rdx": "rdx edx dx dl dh",
                    "rsi": "rsi esi si sil", "rdi": "rdi edi di dil", "rbp": "rbp ebp bp bpl", "rsp": "rsp esp sp spl"}.items():
    for n in names.split():
        R64[n] = base
for i in range(8, 16):
    for suf in ("", "d", "w", "b"):
        R64["r%d%s" % (i, suf)] = "r%d" % i

NOWRITE = ("cmp", "test", "push", "j", "call", "ret", "nop", "endbr", "prefetch", "bt")


def split_ops(s):
    out, depth, cur = [], 0, ""
    for ch in s:
        if ch == "(":
            depth += 1
        elif ch == ")":
            depth -= 1
        if ch == "," and depth == 0:
            out.append(cur.strip()); cur = ""
        else:
            cur += ch
    if cur.strip():
        out.append(cur.strip())
    return out


def tokenise(text):
    """listing -> list of instruction events for Trace_Abi"""
    ev = []
    for line in text.splitlines():
        s = line.strip()
        if not s or s.startswith("#") or s.startswith(".") or s.endswith(":"):
            continue
        parts = s.split(None, 1)
        mn = parts[0].lower()
        ops = split_ops(parts[1]) if len(parts) > 1 else []
        if any(re.search(r"%mm[0-7]\b", o) for o in ops):
            ev.append(dict(e="I", i="mmx"))
        if mn in ("ret", "retq"):
            ev.append(dict(e="I", i="ret")); continue
        if mn == "emms":
            ev.append(dict(e="I", i="emms")); continue
        if mn == "rep" or mn.startswith("rep"):
            for r in ("rcx", "rsi", "rdi"):
                ev.append(dict(e="I", i="write", r=r))
            continue
        m = re.match(r"^(-?\d+)\(%rdi\)$", ops[-1]) if ops else None
        if mn in ("stmxcsr", "vstmxcsr") and m:
            ev.append(dict(e="I", i="stmx", o=int(m.group(1)))); continue
        if mn in ("ldmxcsr", "vldmxcsr") and m:
            ev.append(dict(e="I", i="ldmx", o=int(m.group(1)))); continue
        if mn.startswith("push") and ops and ops[0].startswith("%"):
            ev.append(dict(e="I", i="push", r=R64.get(ops[0][1:], ops[0][1:]))); continue
        if mn.startswith("pop") and ops and ops[0].startswith("%"):
            ev.append(dict(e="I", i="pop", r=R64.get(ops[0][1:], ops[0][1:]))); continue
        if not ops or mn.startswith(NOWRITE):
            continue
        dst = ops[-1]
        if dst.startswith("%"):
            name = dst[1:]
            if name not in R64:
                continue            # xmm / ymm / mm: volatile in this ABI (mm tracked above)
            r = R64[name]
            src = ops[0] if len(ops) > 1 else ""
            ms = re.match(r"^(-?\d+)\(%rdi\)$", src)
            if mn in ("mov", "movl") and ms and name.startswith(("e", "r")) and (name.startswith("e") or name.endswith("d")):
                ev.append(dict(e="I", i="load", r=r, o=int(ms.group(1))))
            elif mn in ("or", "orl") and src == "$32832":
                ev.append(dict(e="I", i="orftz", r=r))
            else:
                ev.append(dict(e="I", i="write", r=r))
        elif m:
            src = ops[0] if len(ops) > 1 else ""
            if mn in ("mov", "movl") and src.startswith("%") and src[1:] in R64:
                ev.append(dict(e="I", i="store", o=int(m.group(1)), r=R64[src[1:]]))
            else:
                ev.append(dict(e="I", i="slotw", o=int(m.group(1))))
    return ev


def gen_orc(rng):
    """programs that use many pointer registers, float state, MMX, 2-D, accumulators"""
    L = []
    k = 0
    for nd in (1, 2, 4):
        for ns in (2, 4, 6, 8):
            for fl in (0, 1):
                for twod in (0, 1):
                    k += 1
                    L.append(".function abi_%d" % k)
                    if twod:
                        L.append(".flags 2d")
                    for d in range(nd):
                        L.append(".dest 4 d%d" % (d + 1))
                    for s in range(ns):
                        L.append(".source 4 s%d" % (s + 1))
                    L.append(".temp 4 t1"); L.append(".temp 4 t2")
                    for d in range(nd):
                        a = (2 * d) % ns + 1; b = (2 * d + 1) % ns + 1
                        op = ("addf" if d == 0 else "mulf") if fl else rng.choice(["addl", "subl", "xorl", "mulll", "maxsl"])
                        L.append("%s t1, s%d, s%d" % (op, a, b))
                        if ns > 4:
                            L.append("%s t2, s%d, s%d" % ("addl" if not fl else "subf", ns - 1, ns))
                            L.append("%s t1, t1, t2" % ("xorl" if not fl else "addf"))
                        L.append("copyl d%d, t1" % (d + 1))
                    L.append("")
    for w, ops in (("b", "addb"), ("w", "mullw"), ("l", "addl")):
        sz = {"b": 1, "w": 2, "l": 4}[w]
        k += 1
        L += [".function abi_%d" % k, ".dest %d d1" % sz, ".source %d s1" % sz, ".source %d s2" % sz, "%s d1, s1, s2" % ops, ""]
    k += 1
    L += [".function abi_%d" % k, ".source 2 s1", ".accumulator 2 a1", "accw a1, s1", ""]
    k += 1
    L += [".function abi_%d" % k, ".source 1 s1", ".source 1 s2", ".accumulator 4 a1", "accsadubl a1, s1, s2", ""]
    k += 1
    L += [".function abi_%d" % k, ".dest 4 d1", ".source 4 s1", ".param 4 p1", ".param 4 p2", "ldresnearl d1, s1, p1, p2", ""]
    k += 1
    L += [".function abi_%d" % k, ".dest 4 d1", ".source 4 s1", ".param 4 p1", ".param 4 p2", "ldreslinl d1, s1, p1, p2", ""]
    k += 1
    L += [".function abi_%d" % k, ".dest 8 d1", ".source 8 s1", ".source 8 s2", ".doubleparam 8 p1", ".temp 8 t1", "addd t1, s1, s2", "muld d1, t1, p1", ""]
    k += 1
    L += [".function abi_%d" % k, ".dest 4 d1", ".source 4 s1", ".floatparam 4 p1", ".temp 4 t1", "mulf t1, s1, p1", "convfl d1, t1", ""]
    k += 1
    L += [".function abi_%d" % k, ".dest 4 d1", ".source 4 s1", ".source 4 s2", "cmpltf d1, s1, s2", ""]
    k += 1
    L += [".function abi_%d" % k, ".n 8", ".dest 2 d1", ".source 2 s1", "addw d1, d1, s1", ""]
    return "\n".join(L) + "\n"


def model(ctx):
    res = tlc("MC_Abi", "MC_Abi.cfg", workers=4, timeout=900, coverage=True)
    if not tlc_ok(res, "MC_Abi"):
        rp = ctx.save_replay("abigen.txt", res["out"][-5000:])
        ctx.violation("AbiGen (the disciplined generator) violates %s" % res["violated"], rp)
    else:
        ctx.add_model(res, "AbiGen")


def run(ctx):
    quick = ctx.quick
    model(ctx)
    binary = build_harness("h_abi", "hook")
    own = os.path.join(ctx.work, "abi_gen.orc")
    open(own, "w").write(gen_orc(ctx.rng))
    files = [own, os.path.join(REPO, "testsuite", "test.orc"), os.path.join(REPO, "orc", "orcfunctions.orc")]
    files += sorted(glob.glob(os.path.join(REPO, "examples", "*.orc")))
    jobs = [(p, f) for p in ("sse", "avx", "mmx") for f in files]
    def one(a):
        p, f = a
        tag = "%s_%s" % (os.path.basename(f).replace(".orc", ""), p)
        d = os.path.join(ctx.work, "lst_" + tag)
        os.makedirs(d, exist_ok=True)
        tf = os.path.join(ctx.work, "abi_%s.ndjson" % tag)
        if os.path.exists(tf):
            os.unlink(tf)
        rc, out = sh([binary, p, f, d], timeout=1500, env={"ORC_VERIF_TRACE": tf})
        if rc != 0:
            raise MachineryError("h_abi failed rc=%d %s" % (rc, out[-800:]))
        # weave the tokenised listing in front of the calls of each program
        rows = []
        for r in read_ndjson(tf):
            if r.get("e") == "Listing":
                rows.append(dict(e="Fn", prog=r["prog"], path=r["path"]))
                rows += tokenise(open(r["file"]).read())
            elif r.get("e") in ("Call", "Died", "NoCode", "End", "Reset"):
                rows.append(r)
        write_ndjson(tf + ".w", rows)
        return p, f, tf + ".w"
    woven = parallel(one, jobs)
    def val(a):
        p, f, tf = a
        rows = read_ndjson(tf)
        offs = sorted(set(r["o"] for r in rows if "o" in r)) or [0]
        cfg = tf + ".cfg"
        open(cfg, "w").write(open(os.path.join(SPEC, "Trace_Abi.cfg")).read().replace(
            "Slots <- TSlots", "Slots = {%s}" % ", ".join(str(o) for o in offs)))
        bad = []
        r = T.validate("Trace_Abi", cfg, tf, timeout=2500, heap="4g")
        st = [r["res"]["distinct"], r["res"]["generated"]]
        idx = [int(m) for m in re.findall(r'<<"BAD", (\d+)>>', r["res"]["out"])]
        if not r["accepted"]:
            idx.append(r["rejected_at"])      # an instruction the specification has no action for
        for k1 in sorted(set(idx)):
            k = k1 - 1
            ev = rows[k]
            s = k
            while s > 0 and rows[s].get("e") != "Fn":
                s -= 1
            fn = rows[s] if rows[s].get("e") == "Fn" else {}
            bad.append((ev, fn, rows[s:k + 1] if ev.get("e") == "I" else [ev]))
        if not r["accepted"]:
            ctx.info("%s %s: replay stopped at line %d (%s); the rest of this file was not replayed" % (
                p, os.path.basename(f), r["rejected_at"], json.dumps(rows[r["rejected_at"] - 1])[:120]))
        return p, f, bad, st, sum(1 for x in rows if x.get("e") == "Call"), sum(1 for x in rows if x.get("e") == "Fn"), \
            [x for x in rows if x.get("e") == "Died"]
    n = 0
    seen = {}
    for p, f, bad, st, calls, fns, died in parallel(val, woven):
        ctx.cov["states"] += st[0]; ctx.cov["transitions"] += st[1]
        ctx.cov["traces_validated_against_impl"] += calls
        ctx.cov["listings_replayed"] = ctx.cov.get("listings_replayed", 0) + fns
        for ev in died:
            sig = dict(prog=ev.get("prog"), path=p, kind="died")
            k = ctx.match_known(sig)
            if k:
                ctx.known_finding(k["key"], k["what"]); continue
            rp = ctx.save_replay("died_%s_%s.ndjson" % (ev.get("prog"), p), json.dumps(ev) + "\n")
            ctx.violation("C10: calling %s (%s) through the trampoline died with signal %s" % (ev.get("prog"), p, ev.get("sig")), rp)
        for ev, fn, seg in bad:
            if ev.get("e") == "Call":
                b, a = ev["before"], ev["after"]
                what = [r for r in ("rbx", "rbp", "r12", "r13", "r14", "r15", "rsp", "mxcsr") if a.get(r) != b.get(r)]
                if a.get("df"): what.append("df")
                if a.get("tag") != 65535: what.append("x87tag")
                if ev.get("canary") != 32: what.append("stack")
                if ev.get("guard") != 1: what.append("memory")
                kind = "call:" + "+".join(what)
            else:
                kind = "listing:%s" % ev.get("i")
            key = (p, kind)
            seen.setdefault(key, []).append((ev, fn, seg))
    for (p, kind), lst in sorted(seen.items()):
        sig = dict(path=p, kind=kind)
        k = ctx.match_known(sig)
        if k:
            ctx.known_finding(k["key"], k["what"]); continue
        ev, fn, seg = lst[0]
        n += 1
        rp = ctx.save_replay("abi_%d.ndjson" % n, "\n".join(json.dumps(x) for x in seg) + "\n")
        progs = sorted(set((e.get("prog") or f.get("prog") or "?") for e, f, _ in lst))
        ctx.violation("C10 (%s): %s - %d event(s), programs %s; first: %s" % (
            p, kind, len(lst), ", ".join(progs[:6]) + (" ..." if len(progs) > 6 else ""), json.dumps(ev)[:420]), rp)
    ctx.cov["exhaustive"] = False
    ctx.cov["rule"] = ("AbiGen: every subset of 6 callee-saved registers x float x mmx; implementation: all programs of "
                       "test.orc, orcfunctions.orc, examples and 50+ generated many-array / float / 2-D programs x "
                       "{sse, avx, mmx} x 7 values of n x m in {1,3} x 5 MXCSR settings")
    ctx.assumptions += ["x86-64 System V only (xmm registers are all volatile there); 32-bit and Windows conventions are "
                        "not executable in this sandbox", "the executor structure itself may be written (the property "
                        "exempts it)", "listing replay is a linear scan: every path through the function is assumed to run "
                        "the whole prologue and epilogue (the trampoline runs check the taken paths)"]


def replay(ctx, path):
    r = T.validate("Trace_Abi", "Trace_Abi.cfg", path)
    ctx.cov["states"] = max(1, r["res"]["distinct"]); ctx.cov["transitions"] = max(1, r["res"]["generated"])
    if not r["accepted"]:
        ctx.violation("replayed ABI event rejected by Trace_Abi", path)
