# Builds liborc (static) + the orc-test helper library from /repo's current
# working tree into $(OUT).  Usage:
#   make -f mk/orc.mk OUT=build/hook CC=gcc CFLAGS_V="-O1 -g -DORC_VERIF_HOOKS"
REPO ?= /repo
CFG  ?= /verif/build/cfg
OUT  ?= /verif/build/hook
CC   ?= gcc
CFLAGS_V ?= -O1 -g -DORC_VERIF_HOOKS

LIBSRC := $(filter-out %/orcprogram-arm.c %/orcrules-arm.c %/orccpu-arm.c \
            %/orccpu-mips.c %/orccpu-powerpc.c, $(wildcard $(REPO)/orc/*.c))
TESTSRC := $(wildcard $(REPO)/orc-test/*.c)
LIBOBJ := $(patsubst $(REPO)/orc/%.c,$(OUT)/orc/%.o,$(LIBSRC))
TESTOBJ := $(patsubst $(REPO)/orc-test/%.c,$(OUT)/orc-test/%.o,$(TESTSRC))

CPPFLAGS_ORC := -DHAVE_CONFIG_H -DORC_ENABLE_UNSTABLE_API -D_GNU_SOURCE \
  -I$(REPO) -I$(CFG) -Wno-implicit-int -Wno-implicit-function-declaration

all: $(OUT)/liborc.a $(OUT)/liborctest.a

$(OUT)/orc/%.o: $(REPO)/orc/%.c
	@mkdir -p $(dir $@)
	$(CC) $(CFLAGS_V) $(CPPFLAGS_ORC) -DBUILDING_ORC -MMD -MP -c -o $@ $<

$(OUT)/orc-test/%.o: $(REPO)/orc-test/%.c
	@mkdir -p $(dir $@)
	$(CC) $(CFLAGS_V) $(CPPFLAGS_ORC) -DBUILDING_ORC_TEST -MMD -MP -c -o $@ $<

$(OUT)/liborc.a: $(LIBOBJ)
	@rm -f $@
	ar rcs $@ $(LIBOBJ)

$(OUT)/liborctest.a: $(TESTOBJ)
	@rm -f $@
	ar rcs $@ $(TESTOBJ)

-include $(LIBOBJ:.o=.d) $(TESTOBJ:.o=.d)
