/* C09 conformance harness.
 *
 *   h_codemem replay <file> : every line of <file> is one behaviour generated
 *       by TLC from spec/CodeMem.tla ("A h units;F h;...").  Each behaviour is
 *       replayed in a fresh child process through the public
 *       orc_code_new / orc_code_allocate_codemem / orc_code_free.
 *   h_codemem history <seed> <nops> <nslots> : one long seeded history of real
 *       compile / run / take_code / free operations on programs of varied
 *       code size.
 *
 * After every operation the state seen through the public OrcCode fields and
 * the read-only walker is emitted as an Obs event; spec/Trace_CodeMem.tla
 * gives the verdict.  */
#include "hcommon.h"

#define UNIT 16384
#define MAXH 64

typedef struct {
  OrcCode *code;          /* live object (replay mode / taken code) */
  OrcProgram *prog;       /* history mode: program owning the code, or NULL */
  int size;               /* requested size */
  unsigned char pat;      /* replay mode: fill pattern */
  uint64_t hash;          /* history mode: hash of the emitted bytes */
  int k;                  /* history mode: program parameter (adds k) */
  int nins;
} Slot;

static Slot slots[MAXH];

typedef struct { HBuf *b; int cur; int nreg; void *wbase[256]; void *xbase[256]; int rsize[256]; } WalkCtx;

static void
walk_cb (void *user, int region, void *wp, void *xp, int rsize, int off, int size, int used)
{
  WalkCtx *w = user;
  if (region != w->cur) {
    if (w->cur >= 0) hb_printf (w->b, "],");
    hb_printf (w->b, "[");
    w->cur = region;
    if (region < 256) { w->wbase[region] = wp; w->xbase[region] = xp; w->rsize[region] = rsize; }
    if (region + 1 > w->nreg) w->nreg = region + 1;
  } else {
    hb_printf (w->b, ",");
  }
  hb_printf (w->b, "[%d,%d,%d]", off, size, used ? 1 : 0);
}

static OrcCode *
slot_code (Slot *s)
{
  if (s->code) return s->code;
  if (s->prog) return s->prog->orccode;
  return NULL;
}

/* check of one live history-mode function: bytes unchanged, result right */
static int
check_func (Slot *s)
{
  OrcCode *c = slot_code (s);
  orc_int16 src[19], dst[19];
  OrcExecutor ex;
  int i;

  if (!c || !c->chunk) return 1;
  if (fnv1a (c->exec, c->code_size) != s->hash) return 0;
  if (fnv1a (c->code, c->code_size) != s->hash) return 0;
  for (i = 0; i < 19; i++) { src[i] = (orc_int16) (i * 37 + s->k); dst[i] = 0x5555; }
  memset (&ex, 0, sizeof (ex));
  if (s->prog) {
    orc_executor_set_program (&ex, s->prog);
  } else {
    ex.arrays[ORC_VAR_A2] = c;
    ex.program = NULL;
  }
  ex.n = 19;
  ex.arrays[ORC_VAR_D1] = dst;
  ex.arrays[ORC_VAR_S1] = src;
  c->exec (&ex);
  for (i = 0; i < 19; i++) {
    orc_int16 want = (orc_int16) (src[i] + (orc_int16) (s->k * s->nins));
    if (dst[i] != want) return 0;
  }
  return 1;
}

static void
emit_obs (int replay_mode)
{
  HBuf w, lv;
  WalkCtx wc;
  int h, ok = 1, first = 1;

  hb_init (&w); hb_init (&lv);
  memset (&wc, 0, sizeof (wc));
  wc.b = &w; wc.cur = -1; wc.nreg = 0;
  orc_verif_codemem_walk (walk_cb, &wc);
  if (wc.cur >= 0) hb_printf (&w, "]");

  for (h = 0; h < MAXH; h++) {
    OrcCode *c = slot_code (&slots[h]);
    int r, found = -1;
    if (!c || !c->chunk) continue;
    for (r = 0; r < wc.nreg && r < 256; r++) {
      char *xb = wc.xbase[r];
      if ((char *) c->exec >= xb && (char *) c->exec < xb + wc.rsize[r]) { found = r; break; }
    }
    if (found < 0) {
      /* not inside any region the walker knows: report an impossible place */
      hb_printf (&lv, "%s[%d,%d,%d,%d]", first ? "" : ",", h + 1, -5, 0, c->code_size);
      first = 0;
      continue;
    }
    {
      long xoff = (char *) c->exec - (char *) wc.xbase[found];
      long woff = (char *) c->code - (char *) wc.wbase[found];
      if (xoff != woff) ok = 0;         /* write and exec views must coincide */
      hb_printf (&lv, "%s[%d,%d,%ld,%d]", first ? "" : ",", h + 1, found, xoff, c->code_size);
      first = 0;
    }
    if (replay_mode) {
      int i;
      unsigned char *x = (unsigned char *) c->exec;
      for (i = 0; i < c->code_size; i += 61) if (x[i] != slots[h].pat) ok = 0;
      if (c->code_size > 0 && x[c->code_size - 1] != slots[h].pat) ok = 0;
    } else {
      if (!check_func (&slots[h])) ok = 0;
    }
  }
  HEMIT ("\"e\":\"Obs\",\"ok\":%d,\"nreg\":%d,\"live\":[%s],\"walk\":[%s]", ok, wc.nreg, lv.s, w.s);
  hb_free (&w); hb_free (&lv);
}

/* ------------------------------------------------------------ replay mode */

static void
replay_line (char *line)
{
  char *tok, *save = NULL;
  HEMIT ("\"e\":\"Reset\"");
  orc_init ();
  for (tok = strtok_r (line, ";\n", &save); tok; tok = strtok_r (NULL, ";\n", &save)) {
    char op; int h, u;
    if (sscanf (tok, " %c %d %d", &op, &h, &u) < 2) continue;
    if (h < 1 || h > MAXH) continue;
    if (op == 'A') {
      int size = u * UNIT - 1;
      Slot *s = &slots[h - 1];
      HEMIT ("\"e\":\"Op\",\"op\":\"A\",\"h\":%d,\"size\":%d", h, size);
      s->code = orc_code_new ();
      s->size = size;
      s->pat = (unsigned char) (0x40 + h * 7 + u);
      orc_code_allocate_codemem (s->code, size);
      if (s->code->chunk) {
        memset (s->code->code, s->pat, size);
      } else {
        orc_code_free (s->code);
        s->code = NULL;
      }
    } else if (op == 'F') {
      Slot *s = &slots[h - 1];
      HEMIT ("\"e\":\"Op\",\"op\":\"F\",\"h\":%d,\"size\":0", h);
      if (s->code) { orc_code_free (s->code); s->code = NULL; }
    }
    emit_obs (1);
  }
}

static int
do_replay (const char *fn)
{
  FILE *f = fopen (fn, "r");
  char *line = NULL; size_t cap = 0;
  int bad = 0;
  if (!f) { perror (fn); return 2; }
  while (getline (&line, &cap, f) > 0) {
    pid_t pid;
    int st;
    fflush (NULL);
    pid = fork ();
    if (pid == 0) {
      alarm (20);
      replay_line (line);
      _exit (0);
    }
    waitpid (pid, &st, 0);
    if (!WIFEXITED (st) || WEXITSTATUS (st) != 0) {
      /* the child died: the trace is truncated there; say so in the trace */
      HEMIT ("\"e\":\"Crash\",\"status\":%d", st);
      bad++;
    }
  }
  fclose (f);
  return bad ? 3 : 0;
}

/* ----------------------------------------------------------- history mode */

/* d1 = s1 + k (nins times): code size grows with nins */
static OrcProgram *
make_prog (int nins, int k)
{
  OrcProgram *p = orc_program_new ();
  int i, c;
  orc_program_add_destination (p, 2, "d1");
  orc_program_add_source (p, 2, "s1");
  c = orc_program_add_constant (p, 2, k, "c1");
  orc_program_add_temporary (p, 2, "t1");
  orc_program_append_2 (p, "addw", 0, ORC_VAR_T1, ORC_VAR_S1, c, ORC_VAR_D1);
  for (i = 1; i < nins; i++)
    orc_program_append_2 (p, "addw", 0, ORC_VAR_T1, ORC_VAR_T1, c, ORC_VAR_D1);
  orc_program_append_2 (p, "copyw", 0, ORC_VAR_D1, ORC_VAR_T1, ORC_VAR_D1, ORC_VAR_D1);
  return p;
}

static int
do_history (unsigned long seed, int nops, int nslots)
{
  HRng rng = { seed * 0x9e3779b97f4a7c15ULL + 12345 };
  int i;
  static const char *tnames[] = { "avx", "sse", "avx", "sse", "mmx" };
  HEMIT ("\"e\":\"Reset\"");
  orc_init ();
  if (nslots > MAXH) nslots = MAXH;
  for (i = 0; i < nops; i++) {
    int h = hrng_below (&rng, nslots);
    Slot *s = &slots[h];
    if (!s->prog && !s->code) {
      /* compile a new function into slot h */
      /* at most 28 rewrites of the temporary: longer chains overflow the
       * compiler's variable table (a C05 matter, kept out of this check) */
      int nins = 1 + hrng_below (&rng, 28);
      OrcTarget *t = orc_target_get_by_name (tnames[hrng_below (&rng, 5)]);
      s->nins = nins;
      s->k = 1 + hrng_below (&rng, 100);
      s->prog = make_prog (nins, s->k);
      HEMIT ("\"e\":\"Op\",\"op\":\"A\",\"h\":%d,\"size\":%d", h + 1, 0);
      orc_program_compile_for_target (s->prog, t);
      if (s->prog->orccode && s->prog->orccode->chunk) {
        OrcCode *c = s->prog->orccode;
        s->hash = fnv1a (c->code, c->code_size);
      }
      /* the size requested is only known after the fact: patch up below */
    } else {
      int what = hrng_below (&rng, 4);
      if (s->prog && what == 0 && s->prog->orccode) {
        /* hand the code over, free the program: no allocator event expected */
        HEMIT ("\"e\":\"Op\",\"op\":\"T\",\"h\":%d,\"size\":0", h + 1);
        s->code = orc_program_take_code (s->prog);
        orc_program_free (s->prog);
        s->prog = NULL;
      } else if (s->prog && what == 1) {
        HEMIT ("\"e\":\"Op\",\"op\":\"F\",\"h\":%d,\"size\":0", h + 1);
        orc_program_reset (s->prog);
        orc_program_free (s->prog);
        s->prog = NULL;
      } else {
        HEMIT ("\"e\":\"Op\",\"op\":\"F\",\"h\":%d,\"size\":0", h + 1);
        if (s->prog) { orc_program_free (s->prog); s->prog = NULL; }
        if (s->code) { orc_code_free (s->code); s->code = NULL; }
      }
    }
    emit_obs (0);
  }
  return 0;
}

int
main (int argc, char **argv)
{
  if (argc >= 3 && !strcmp (argv[1], "replay")) return do_replay (argv[2]);
  if (argc >= 5 && !strcmp (argv[1], "history"))
    return do_history (strtoul (argv[2], NULL, 0), atoi (argv[3]), atoi (argv[4]));
  fprintf (stderr, "usage: h_codemem replay <file> | history <seed> <nops> <nslots>\n");
  return 2;
}
