/* C08 harness: many threads use the library at once.
 *
 *   h_threads <nthreads> <nonce> <iters> <seed>
 * Every thread, released from a barrier: orc_init(); then <iters> rounds of
 *   - compile / run / check / free a program of its own,
 *   - a first-or-later call through each of <nonce> once-guarded wrappers of
 *     the kind orcc generates (orc_once_enter, compile, take_code,
 *     orc_once_leave; then a run through a code-only executor),
 *   - runs of one shared compiled function with its own executor.
 * Events (ordered by the emit sequence number, which for lock-protected hook
 * events is taken while the lock is held):
 *   Op/Obs-less allocator hooks (Alloc, Free, NewRegion), Lock/Unlock, InitBody,
 *   TOp {op,h}        thread is about to compile ("A") / free ("F") code object h
 *   OnceEnter {o,ret,val}, OnceLeave {o,val}
 *   Run {kind,ok}
 */
#include "hcommon.h"
#include <pthread.h>
#include <orc/orconce.h>

#define MAXT 32
#define MAXO 16
#define N 37

static int nthreads, nonce, iters;
static unsigned long seed;
static pthread_barrier_t barrier;
static OrcOnce onces[MAXO];     /* zero-initialised = ORC_ONCE_INIT */
static OrcCode *shared_code;
static int failures;

static OrcProgram *
make_prog (int k)
{
  OrcProgram *p = orc_program_new ();
  char name[32];
  sprintf (name, "thr_%d", k);
  orc_program_set_name (p, name);
  orc_program_add_destination (p, 2, "d1");
  orc_program_add_source (p, 2, "s1");
  orc_program_add_constant (p, 2, k, "c1");
  orc_program_append_2 (p, "addw", 0, ORC_VAR_D1, ORC_VAR_S1, ORC_VAR_C1, ORC_VAR_D1);
  if (k & 1) orc_program_append_2 (p, "addw", 0, ORC_VAR_D1, ORC_VAR_D1, ORC_VAR_C1, ORC_VAR_D1);
  return p;
}

static int
run_check (OrcProgram *p, OrcCode *c, int k)
{
  orc_int16 s[N], d[N];
  OrcExecutor ex;
  int i, add = (k & 1) ? 2 * k : k;
  for (i = 0; i < N; i++) { s[i] = (orc_int16) (i * 97 + k); d[i] = 0x1111; }
  memset (&ex, 0, sizeof (ex));
  if (p) orc_executor_set_program (&ex, p);
  else { ex.program = NULL; ex.arrays[ORC_VAR_A2] = c; }
  ex.n = N;
  ex.arrays[ORC_VAR_D1] = d;
  ex.arrays[ORC_VAR_S1] = s;
  orc_executor_run (&ex);
  for (i = 0; i < N; i++) if (d[i] != (orc_int16) (s[i] + add)) return 0;
  return 1;
}

/* what orcc emits for every function */
static int
wrapper (int o, int tid)
{
  OrcCode *c;
  void *v = NULL;
  int ret = orc_once_enter (&onces[o], &v);
  if (!ret) {
    OrcProgram *p;
    HEMIT ("\"e\":\"OnceEnter\",\"o\":%d,\"ret\":0,\"val\":0", o + 1);
    p = make_prog (1000 + o * 2);
    HEMIT ("\"e\":\"Op\",\"op\":\"A\",\"size\":0,\"h\":%d", 5000 + o);
    orc_program_compile (p);
    c = orc_program_take_code (p);
    orc_program_free (p);
    HEMIT ("\"e\":\"OnceLeave\",\"o\":%d,\"val\":%d", o + 1, (int) ((unsigned long) c % 1000003) + 1);
    orc_once_leave (&onces[o], c);
  } else {
    c = v;
    HEMIT ("\"e\":\"OnceEnter\",\"o\":%d,\"ret\":1,\"val\":%d", o + 1, (int) ((unsigned long) c % 1000003) + 1);
  }
  return c ? run_check (NULL, c, 1000 + o * 2) : 0;
}

static void *
thread_main (void *arg)
{
  int tid = (int) (long) arg, it, o;
  HRng rng = { seed * 7919 + tid };
  pthread_barrier_wait (&barrier);
  orc_init ();
  for (it = 0; it < iters; it++) {
    int k = 2 + tid * 50 + it, ok;
    int h = 1 + tid * 100 + it;
    OrcProgram *p = make_prog (k);
    HEMIT ("\"e\":\"Op\",\"op\":\"A\",\"size\":0,\"h\":%d", h);
    orc_program_compile (p);
    ok = run_check (p, NULL, k);
    HEMIT ("\"e\":\"Run\",\"kind\":\"own\",\"ok\":%d", ok);
    if (!ok) __atomic_add_fetch (&failures, 1, __ATOMIC_RELAXED);
    for (o = 0; o < nonce; o++) {
      int oo = (o + tid + it) % nonce;
      ok = wrapper (oo, tid);
      HEMIT ("\"e\":\"Run\",\"kind\":\"once\",\"ok\":%d", ok);
      if (!ok) __atomic_add_fetch (&failures, 1, __ATOMIC_RELAXED);
    }
    if (shared_code) {
      ok = run_check (NULL, shared_code, 4242);
      HEMIT ("\"e\":\"Run\",\"kind\":\"shared\",\"ok\":%d", ok);
      if (!ok) __atomic_add_fetch (&failures, 1, __ATOMIC_RELAXED);
    }
    if (hrng_below (&rng, 3) == 0) sched_yield ();
    HEMIT ("\"e\":\"Op\",\"op\":\"F\",\"size\":0,\"h\":%d", h);
    orc_program_free (p);
  }
  return NULL;
}

int
main (int argc, char **argv)
{
  pthread_t th[MAXT];
  int i;
  if (argc < 5) { fprintf (stderr, "usage: h_threads <nthreads> <nonce> <iters> <seed>\n"); return 2; }
  nthreads = atoi (argv[1]); nonce = atoi (argv[2]); iters = atoi (argv[3]); seed = strtoul (argv[4], NULL, 0);
  if (nthreads > MAXT) nthreads = MAXT;
  if (nonce > MAXO) nonce = MAXO;
  alarm (120);
  HEMIT ("\"e\":\"Reset\",\"threads\":%d", nthreads);
  if (seed & 1) {
    /* half of the runs: the library is already initialised and a shared
     * function exists; the other half start with concurrent orc_init */
    OrcProgram *p;
    orc_init ();
    p = make_prog (4242);
    HEMIT ("\"e\":\"Op\",\"op\":\"A\",\"size\":0,\"h\":%d", 9999);
    orc_program_compile (p);
    shared_code = orc_program_take_code (p);
    orc_program_free (p);
  }
  pthread_barrier_init (&barrier, NULL, nthreads);
  for (i = 0; i < nthreads; i++) pthread_create (&th[i], NULL, thread_main, (void *) (long) (i + 1));
  for (i = 0; i < nthreads; i++) pthread_join (th[i], NULL);
  HEMIT ("\"e\":\"End\",\"leak\":0,\"failures\":%d", failures);
  return 0;
}
