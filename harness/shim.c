/* System-call fault shim, linked with
 *   -Wl,--wrap=mkstemp,--wrap=ftruncate,--wrap=mmap,--wrap=munmap,--wrap=close
 * against the static liborc: intercepts exactly the calls orccodemem.c makes to
 * obtain executable memory.
 *
 * Faultable calls are numbered 1,2,3... in the order they happen in the process:
 * every mkstemp, every ftruncate, and every mmap that asks for PROT_EXEC or maps
 * a file.  H_FAULTS="3,7" makes the 3rd and the 7th fail; H_FAULT_FROM="k:class"
 * makes every faultable call of a class (mkstemp, ftruncate, mmapx = executable
 * file mapping, mmapw = writable file mapping, anon, all) fail from call k on.
 * Every intercepted call is logged as a Sys event.
 */
#ifndef _GNU_SOURCE
#define _GNU_SOURCE
#endif
#include <stdio.h>
#include <stdlib.h>
#include <string.h>
#include <errno.h>
#include <unistd.h>
#include <sys/mman.h>
#include <orc/orcverif.h>

int __real_mkstemp (char *tmpl);
int __real_ftruncate (int fd, off_t len);
void *__real_mmap (void *addr, size_t len, int prot, int flags, int fd, off_t off);
int __real_munmap (void *addr, size_t len);
int __real_close (int fd);

static int callno;
static int plan[16], nplan = -1;
static int from_k = -1;
static char from_cls[16];

#define MAXT 256
static int tracked_fd[MAXT]; static int n_fd;
static struct { void *p; int id; } tracked_map[MAXT]; static int n_map; static int next_map_id = 1;

static void
load_plan (void)
{
  const char *s = getenv ("H_FAULTS");
  const char *f = getenv ("H_FAULT_FROM");
  nplan = 0;
  if (s) {
    while (*s && nplan < 16) {
      plan[nplan++] = atoi (s);
      s = strchr (s, ',');
      if (!s) break;
      s++;
    }
  }
  if (f && strchr (f, ':')) {
    from_k = atoi (f);
    snprintf (from_cls, sizeof (from_cls), "%s", strchr (f, ':') + 1);
  }
}

static int
must_fail (int n, const char *cls)
{
  int i;
  if (nplan < 0) load_plan ();
  for (i = 0; i < nplan; i++) if (plan[i] == n) return 1;
  if (from_k >= 0 && n >= from_k && (!strcmp (from_cls, "all") || !strcmp (from_cls, cls))) return 1;
  return 0;
}

static int is_tracked_fd (int fd) { int i; for (i = 0; i < n_fd; i++) if (tracked_fd[i] == fd) return 1; return 0; }
static void untrack_fd (int fd) { int i; for (i = 0; i < n_fd; i++) if (tracked_fd[i] == fd) { tracked_fd[i] = tracked_fd[--n_fd]; return; } }

void
shim_reset_counter (void)
{
  callno = 0;
}

int
__wrap_mkstemp (char *tmpl)
{
  int n = ++callno, fd;
  const char *dir = !strncmp (tmpl, "/tmp/", 5) && strncmp (tmpl, "/tmp/h", 6) ? "tmp" : "env";
  if (must_fail (n, "mkstemp")) {
    ORC_VERIF_EMIT ("\"e\":\"Sys\",\"n\":%d,\"call\":\"mkstemp\",\"ok\":0,\"fd\":-1,\"id\":0,\"dir\":\"%s\",\"inj\":1", n, dir);
    errno = EACCES;
    return -1;
  }
  fd = __real_mkstemp (tmpl);
  if (fd >= 0 && n_fd < MAXT) tracked_fd[n_fd++] = fd;
  ORC_VERIF_EMIT ("\"e\":\"Sys\",\"n\":%d,\"call\":\"mkstemp\",\"ok\":%d,\"fd\":%d,\"id\":0,\"dir\":\"%s\",\"inj\":0", n, fd >= 0, fd, dir);
  return fd;
}

int
__wrap_ftruncate (int fd, off_t len)
{
  int n, r;
  if (!is_tracked_fd (fd)) return __real_ftruncate (fd, len);
  n = ++callno;
  if (must_fail (n, "ftruncate")) {
    ORC_VERIF_EMIT ("\"e\":\"Sys\",\"n\":%d,\"call\":\"ftruncate\",\"ok\":0,\"fd\":%d,\"id\":0,\"dir\":\"\",\"inj\":1", n, fd);
    errno = ENOSPC;
    return -1;
  }
  r = __real_ftruncate (fd, len);
  ORC_VERIF_EMIT ("\"e\":\"Sys\",\"n\":%d,\"call\":\"ftruncate\",\"ok\":%d,\"fd\":%d,\"id\":0,\"dir\":\"\",\"inj\":0", n, r == 0, fd);
  return r;
}

void *
__wrap_mmap (void *addr, size_t len, int prot, int flags, int fd, off_t off)
{
  const char *cls;
  int n, id = 0;
  void *p;
  if (fd >= 0 && is_tracked_fd (fd)) cls = (prot & PROT_EXEC) ? "mmapx" : "mmapw";
  else if ((prot & PROT_EXEC) && (flags & MAP_ANONYMOUS)) cls = "anon";
  else return __real_mmap (addr, len, prot, flags, fd, off);
  n = ++callno;
  if (must_fail (n, cls)) {
    ORC_VERIF_EMIT ("\"e\":\"Sys\",\"n\":%d,\"call\":\"%s\",\"ok\":0,\"fd\":%d,\"id\":0,\"dir\":\"\",\"inj\":1", n, cls, fd);
    errno = EACCES;
    return MAP_FAILED;
  }
  p = __real_mmap (addr, len, prot, flags, fd, off);
  if (p != MAP_FAILED && n_map < MAXT) { id = next_map_id++; tracked_map[n_map].p = p; tracked_map[n_map].id = id; n_map++; }
  ORC_VERIF_EMIT ("\"e\":\"Sys\",\"n\":%d,\"call\":\"%s\",\"ok\":%d,\"fd\":%d,\"id\":%d,\"dir\":\"\",\"inj\":0", n, cls, p != MAP_FAILED, fd, id);
  return p;
}

int
__wrap_munmap (void *addr, size_t len)
{
  int i;
  for (i = 0; i < n_map; i++) {
    if (tracked_map[i].p == addr) {
      int id = tracked_map[i].id;
      tracked_map[i] = tracked_map[--n_map];
      ORC_VERIF_EMIT ("\"e\":\"Sys\",\"n\":0,\"call\":\"munmap\",\"ok\":1,\"fd\":-1,\"id\":%d,\"dir\":\"\",\"inj\":0", id);
      break;
    }
  }
  return __real_munmap (addr, len);
}

int
__wrap_close (int fd)
{
  if (is_tracked_fd (fd)) {
    untrack_fd (fd);
    ORC_VERIF_EMIT ("\"e\":\"Sys\",\"n\":0,\"call\":\"close\",\"ok\":1,\"fd\":%d,\"id\":0,\"dir\":\"\",\"inj\":0", fd);
  }
  return __real_close (fd);
}
