/* C01 harness: multi-instruction programs on native paths (and emulation).
 *   h_prog <path> <plan>
 * plan line: <template> <w> <op1> <op2> <op3> <mult> <seed>
 *   templates (T = temporaries, S = sources, D = destinations, C constant, P parameter, A accumulator):
 *     chain    T1 = op1(S1,S2); D1 = op2(T1,S2)
 *     live     T1 = copy(S1);   D1 = op1(T1,S2); D2 = copy(T1)
 *     inplace  D1 = op1(D1,S1); D1 = op2(D1,C1)
 *     repeat   T1 = op1(S1,S1); D1 = op2(T1,T1)
 *     three    T1 = op1(S1,S2); T2 = op2(S1,T1); D1 = op3(T2,T1)
 *     param    T1 = op1(S1,P1); D1 = op2(T1,C1)
 *     acc      T1 = op1(S1,S2); D1 = copy(T1);   A1 += T1
 *     pwide    D1 = op1(S1,P1) at width w; D2 = op2(S2,P1) at width w/2 (pnarrow: the other order)
 *     rewrite  T1 = op1(S1,S2); T1 = op2(T1,S1); T1 = op3(T1,S2); D1 = copy(T1)
 * Every program is run for several (n, m, misalignment, stride) on one executor that is reused
 * between runs; each run is one Prog event with the program, inputs and outputs as raw bytes
 * (per row) for spec/Trace_Prog.tla.
 */
#include "hcommon.h"
#include "hcgen.h"

#define BUF (1 << 16)
static orc_uint8 mem[8][BUF];

static const char *copyop (int w) { return w == 1 ? "copyb" : w == 2 ? "copyw" : w == 4 ? "copyl" : "copyq"; }

typedef struct { char name[24]; int nd, ns; int d[2], s[2]; } Ins;
typedef struct { int slot; char kind; int size; } Var;
typedef struct { Ins ins[6]; int n_ins; Var vars[10]; int n_vars; int w, mult; int two_d; orc_uint64 cval, pval; } Desc;

static void addv (Desc *d, int slot, char kind, int size) { int i; for (i = 0; i < d->n_vars; i++) if (d->vars[i].slot == slot) return;
  d->vars[d->n_vars].slot = slot; d->vars[d->n_vars].kind = kind; d->vars[d->n_vars].size = size; d->n_vars++; }
static void addi (Desc *d, const char *op, int dst, int dst2, int s1, int s2)
{ Ins *i = &d->ins[d->n_ins++]; strncpy (i->name, op, 23); i->nd = dst2 >= 0 ? 2 : 1; i->d[0] = dst; i->d[1] = dst2;
  i->ns = s2 >= 0 ? 2 : 1; i->s[0] = s1; i->s[1] = s2; }

#define D1 ORC_VAR_D1
#define D2 ORC_VAR_D2
#define S1 ORC_VAR_S1
#define S2 ORC_VAR_S2
#define A1 ORC_VAR_A1
#define C1 ORC_VAR_C1
#define P1 ORC_VAR_P1
#define T1 ORC_VAR_T1
#define T2 ORC_VAR_T2

static int
describe (Desc *d, const char *tpl, int w, const char *o1, const char *o2, const char *o3, int mult)
{
  int e = w * mult;
  memset (d, 0, sizeof (*d));
  d->w = w; d->mult = mult;
  if (!strcmp (tpl, "chain")) { addi (d, o1, T1, -1, S1, S2); addi (d, o2, D1, -1, T1, S2); }
  else if (!strcmp (tpl, "live")) { addi (d, copyop (w), T1, -1, S1, -1); addi (d, o1, D1, -1, T1, S2); addi (d, copyop (w), D2, -1, T1, -1); }
  else if (!strcmp (tpl, "inplace")) { addi (d, o1, D1, -1, D1, S1); addi (d, o2, D1, -1, D1, C1); }
  else if (!strcmp (tpl, "repeat")) { addi (d, o1, T1, -1, S1, S1); addi (d, o2, D1, -1, T1, T1); }
  else if (!strcmp (tpl, "three")) { addi (d, o1, T1, -1, S1, S2); addi (d, o2, T2, -1, S1, T1); addi (d, o3, D1, -1, T2, T1); }
  else if (!strcmp (tpl, "param")) { addi (d, o1, T1, -1, S1, P1); addi (d, o2, D1, -1, T1, C1); }
  /* one parameter used at two widths in one program: P1 has the wide width w, o1 is a w-wide opcode, o2 one of
   * half that width working on its own, narrower arrays (D2, S2); wide use first, or narrow use first */
  else if (!strcmp (tpl, "pwide") || !strcmp (tpl, "pnarrow")) {
    if (mult != 1 || w < 2) return 0;
    addv (d, D2, 'd', w / 2); addv (d, S2, 's', w / 2);
    if (tpl[1] == 'w') { addi (d, o1, D1, -1, S1, P1); addi (d, o2, D2, -1, S2, P1); }
    else { addi (d, o2, D2, -1, S2, P1); addi (d, o1, D1, -1, S1, P1); }
  }
  else if (!strcmp (tpl, "acc")) { addi (d, o1, T1, -1, S1, S2); addi (d, copyop (w), D1, -1, T1, -1); addi (d, w == 2 ? "accw" : "accl", A1, -1, T1, -1); }
  else if (!strcmp (tpl, "rewrite")) { addi (d, o1, T1, -1, S1, S2); addi (d, o2, T1, -1, T1, S1); addi (d, o3, T1, -1, T1, S2); addi (d, copyop (w), D1, -1, T1, -1); }
  else return 0;
  {
    int i, k;
    for (i = 0; i < d->n_ins; i++) for (k = 0; k < d->ins[i].nd + d->ins[i].ns; k++) {
      int s = k < d->ins[i].nd ? d->ins[i].d[k] : d->ins[i].s[k - d->ins[i].nd];
      char kind = s < 4 ? 'd' : s < 12 ? 's' : s < 16 ? 'a' : s < 24 ? 'c' : s < 32 ? 'p' : 't';
      addv (d, s, kind, (kind == 'c' || kind == 'p') ? w : (kind == 'a' ? w : e));
    }
  }
  return 1;
}

static OrcProgram *
build (Desc *d)
{
  OrcProgram *p = orc_program_new ();
  unsigned flags = d->mult == 2 ? ORC_INSTRUCTION_FLAG_X2 : (d->mult == 4 ? ORC_INSTRUCTION_FLAG_X4 : 0);
  int i, has[64] = { 0 };
  static const int order[] = { D1, D2, S1, S2, A1, C1, P1, T1, T2 };
  char name[8];
  orc_program_set_name (p, "prog");
  if (d->two_d) orc_program_set_2d (p);
  for (i = 0; i < d->n_vars; i++) has[d->vars[i].slot] = d->vars[i].size;
  for (i = 0; i < 9; i++) {
    int s = order[i];
    if (!has[s]) {
      /* keep slot numbering: a later variable of the class needs the earlier ones */
      if ((s == D1 && has[D2]) || (s == S1 && has[S2]) || (s == T1 && has[T2])) has[s] = d->w * d->mult; else continue;
    }
    sprintf (name, "v%d", s);
    if (s < 4) orc_program_add_destination (p, has[s], name);
    else if (s < 12) orc_program_add_source (p, has[s], name);
    else if (s < 16) orc_program_add_accumulator (p, has[s], name);
    else if (s < 24) { if (has[s] > 4) orc_program_add_constant_int64 (p, has[s], (orc_int64) d->cval, name); else orc_program_add_constant (p, has[s], (int) d->cval, name); }
    else if (s < 32) { if (has[s] > 4) orc_program_add_parameter_int64 (p, has[s], name); else orc_program_add_parameter (p, has[s], name); }
    else orc_program_add_temporary (p, has[s], name);
  }
  for (i = 0; i < d->n_ins; i++) {
    Ins *in = &d->ins[i];
    int a[4] = { D1, D1, D1, D1 }, k = 0, j;
    OrcStaticOpcode *op = orc_opcode_find_by_name (in->name);
    unsigned f = (op && (op->flags & ORC_STATIC_OPCODE_ACCUMULATOR)) ? flags : flags;
    for (j = 0; j < in->nd; j++) a[k++] = in->d[j];
    for (j = 0; j < in->ns; j++) a[k++] = in->s[j];
    orc_program_append_2 (p, in->name, f, a[0], a[1], a[2], a[3]);
  }
  return p;
}

static void
put (orc_uint8 *p, int size, orc_uint64 v) { int i; for (i = 0; i < size; i++) p[i] = (orc_uint8) (v >> (8 * i)); }

static const orc_uint64 bnd[] = { 0, 1, 2, 0x7f, 0x80, 0x81, 0xff, 0x100, 0x7fff, 0x8000, 0x8001, 0xffff, 0x10000, 0x7fffffff,
  0x80000000ULL, 0x80000001ULL, 0xffffffffULL, 0x100000000ULL, 0x7fffffffffffffffULL, 0x8000000000000000ULL, 0xffffffffffffffffULL,
  0x0123456789abcdefULL, 0xfedcba9876543210ULL };
static orc_uint64
pick (HRng *r, int size)
{
  orc_uint64 v = hrng_below (r, 2) ? bnd[hrng_below (r, 23)] : hrng_next (r);
  if (hrng_below (r, 4) == 0) v += (orc_uint64) hrng_below (r, 5) - 2;
  return size >= 8 ? v : v & ((1ULL << (8 * size)) - 1);
}

static void
rows_json (HBuf *b, const orc_uint8 *base, int stride, int m, int rowbytes)
{
  int r, i;
  hb_printf (b, "[");
  for (r = 0; r < m; r++) {
    hb_printf (b, r ? ",[" : "[");
    for (i = 0; i < rowbytes; i++) hb_printf (b, i ? ",%d" : "%d", base[r * stride + i]);
    hb_printf (b, "]");
  }
  hb_printf (b, "]");
}

static void
do_line (const char *path, char *line)
{
  char tpl[16], o1[24], o2[24], o3[24];
  int w, mult, i, native = strcmp (path, "emu") != 0 && !hc_mode, res, round;
  HCFn cfn = NULL;
  unsigned long seed;
  Desc d;
  OrcProgram *p;
  OrcExecutor ex;
  HRng r;
  OrcTarget *t = NULL;
  unsigned tflags = 0; int tflags_given = 0;
  static const int ns[] = { 1, 2, 3, 5, 7, 8, 15, 16, 17, 31, 33, 63, 64, 65, 100, 6, 10, 4 };
  if (native) {
    char tn[16]; const char *at = strchr (path, '@');
    snprintf (tn, sizeof (tn), "%.*s", at ? (int) (at - path) : 15, path);
    t = orc_target_get_by_name (tn);
    if (at) { tflags_given = 1; tflags = (unsigned) strtoul (at + 1, NULL, 0); }
  }
  if (sscanf (line, "%15s %d %23s %23s %23s %d %lu", tpl, &w, o1, o2, o3, &mult, &seed) < 7) return;
  if (!describe (&d, tpl, w, o1, o2, o3, mult)) return;
  hc_begin_line (line);
  r.s = seed * 0x9e3779b97f4a7c15ULL + fnv1a (line, strlen (line));
  d.cval = pick (&r, w);
  d.two_d = (int) (seed & 1);
  /* shift counts and the like stay inside the reference's domain */
  for (i = 0; i < d.n_ins; i++) {
    OrcStaticOpcode *op = orc_opcode_find_by_name (d.ins[i].name);
    if (!op) return;
    if ((op->flags & ORC_STATIC_OPCODE_SCALAR) && d.ins[i].ns == 2 && d.ins[i].s[1] != C1 && d.ins[i].s[1] != P1) return;
    if (op->flags & ORC_STATIC_OPCODE_SCALAR) d.cval %= 8 * w;
  }
  p = build (&d);
  if (hc_mode == 'g') { hc_emit (p); orc_program_free (p); return; }
  if (hc_mode == 'r') {
    cfn = hc_next ();
    if (!cfn) { HEMIT ("\"e\":\"NoCode\",\"plan\":\"%.80s\",\"path\":\"%s\",\"res\":%d", tpl, path, -1); orc_program_free (p); return; }
    res = 0;
  } else
  res = (tflags_given && t) ? orc_program_compile_full (p, t, tflags) : orc_program_compile_for_target (p, t);
  if (native && !ORC_COMPILE_RESULT_IS_SUCCESSFUL (res)) {
    HEMIT ("\"e\":\"NoCode\",\"plan\":\"%.80s\",\"path\":\"%s\",\"res\":%d", tpl, path, res);
    orc_program_free (p); return;
  }
  if (!native && !cfn && (ORC_COMPILE_RESULT_IS_FATAL (res) || !p->orccode)) { orc_program_free (p); return; }
  memset (&ex, 0, sizeof (ex));
  orc_executor_set_program (&ex, p);
  for (round = 0; round < 14; round++) {
    int n = ns[(round * 5 + (int) (seed % 7)) % 18], m = d.two_d ? 1 + (round % 3) : 1, off = round % 5;
    int e = w * mult, rowbytes = n * e;
    /* rows stay aligned to the element size (the API's contract); the gaps are not multiples
     * of the vector width, so that rows differ in alignment */
    int pad = (round % 2) ? (round % 4 == 1 ? 3 * e : 11 * e) : 0;
    int stride = rowbytes + pad + ((round % 4 == 3) ? 1 * e : 0);
    HBuf ev, ins, outs, vars, consts, accs, is;
    int v, k, fence = 1;
    orc_uint64 pval = pick (&r, w);
    for (i = 0; i < d.n_ins; i++) { OrcStaticOpcode *op = orc_opcode_find_by_name (d.ins[i].name); if (op->flags & ORC_STATIC_OPCODE_SCALAR) pval %= 8 * w; }
    hb_init (&ev); hb_init (&ins); hb_init (&outs); hb_init (&vars); hb_init (&consts); hb_init (&accs); hb_init (&is);
    for (v = 0; v < d.n_vars; v++) {
      Var *va = &d.vars[v];
      hb_printf (&vars, "%s[%d,\"%c\",%d]", v ? "," : "", va->slot, va->kind, va->size);
      if (va->kind == 'd' || va->kind == 's') {
        /* an array narrower than the program's element (pwide / pnarrow) scales offset, row and stride */
        int ve = va->size, vstride = stride / e * ve, vrow = n * ve, vw = ve < e ? ve : w, vmult = ve < e ? 1 : mult;
        orc_uint8 *base = mem[va->slot % 8] + 256 + off * ve;
        memset (mem[va->slot % 8], 0xa5, BUF);
        for (k = 0; k < m; k++) { int j, l; for (j = 0; j < n; j++) for (l = 0; l < vmult; l++) put (base + k * vstride + j * ve + l * vw, vw, pick (&r, vw)); }
        ex.arrays[va->slot] = base;
        ex.params[va->slot] = vstride;
        hb_printf (&ins, "%s[%d,", ins.n ? "," : "", va->slot);
        rows_json (&ins, base, vstride, m, vrow);
        hb_printf (&ins, "]");
      } else if (va->kind == 'c') {
        orc_uint8 t8[8]; put (t8, w, d.cval);
        hb_printf (&consts, "%s[%d,[", consts.n ? "," : "", va->slot);
        for (k = 0; k < w; k++) hb_printf (&consts, k ? ",%d" : "%d", t8[k]);
        hb_printf (&consts, "]]");
      } else if (va->kind == 'p') {
        orc_uint8 t8[8]; put (t8, w, pval);
        ex.params[va->slot] = (int) pval; ex.params[va->slot + (ORC_VAR_T1 - ORC_VAR_P1)] = (int) (pval >> 32);
        hb_printf (&consts, "%s[%d,[", consts.n ? "," : "", va->slot);
        for (k = 0; k < w; k++) hb_printf (&consts, k ? ",%d" : "%d", t8[k]);
        hb_printf (&consts, "]]");
      }
    }
    ex.n = n;
    if (d.two_d) ORC_EXECUTOR_M (&ex) = m;
    if (cfn) cfn (&ex); else if (native) orc_executor_run (&ex); else orc_executor_emulate (&ex);
    for (v = 0; v < d.n_vars; v++) {
      Var *va = &d.vars[v];
      if (va->kind == 'd') {
        int ve = va->size, vstride = stride / e * ve, vrow = n * ve;
        orc_uint8 *base = mem[va->slot % 8] + 256 + off * ve;
        int pos;
        hb_printf (&outs, "%s[%d,", outs.n ? "," : "", va->slot);
        rows_json (&outs, base, vstride, m, vrow);
        hb_printf (&outs, "]");
        /* everything outside the rows must still be 0xa5 */
        for (pos = 0; pos < 256 + off * ve + m * vstride + 64 && pos < BUF; pos++) {
          int rel = pos - (256 + off * ve), inrow = 0;
          if (rel >= 0 && rel < m * vstride && (rel % vstride) < vrow) inrow = 1;
          if (!inrow && mem[va->slot % 8][pos] != 0xa5) fence = 0;
        }
      } else if (va->kind == 'a') {
        orc_uint8 t8[8]; put (t8, va->size, (orc_uint32) ex.accumulators[va->slot - ORC_VAR_A1]);
        hb_printf (&accs, "%s[%d,[", accs.n ? "," : "", va->slot);
        for (k = 0; k < va->size; k++) hb_printf (&accs, k ? ",%d" : "%d", t8[k]);
        hb_printf (&accs, "]]");
      }
    }
    for (i = 0; i < d.n_ins; i++) {
      Ins *in = &d.ins[i];
      OrcStaticOpcode *op = orc_opcode_find_by_name (in->name);
      hb_printf (&is, "%s[\"%s\",%d,[%d%s", i ? "," : "", in->name, mult, in->d[0], in->nd == 2 ? "," : "");
      if (in->nd == 2) hb_printf (&is, "%d", in->d[1]);
      hb_printf (&is, "],[%d", in->s[0]);
      if (in->ns == 2) hb_printf (&is, ",%d", in->s[1]);
      hb_printf (&is, "],%d,%d]", op->src_size[0], op->src_size[1]);
    }
    HEMIT ("\"e\":\"Prog\",\"path\":\"%s\",\"tpl\":\"%s\",\"n\":%d,\"m\":%d,\"off\":%d,\"stride\":%d,\"fence\":%d,\"vars\":[%s],\"consts\":[%s],"
        "\"insns\":[%s],\"ins\":[%s],\"outs\":[%s],\"accs\":[%s]", path, tpl, n, m, off, stride, fence, vars.s, consts.s, is.s, ins.s, outs.s, accs.s);
    hb_free (&ev); hb_free (&ins); hb_free (&outs); hb_free (&vars); hb_free (&consts); hb_free (&accs); hb_free (&is);
  }
  orc_program_free (p);
}

int
main (int argc, char **argv)
{
  FILE *f;
  char *line = NULL; size_t cap = 0;
  if (argc < 3) { fprintf (stderr, "usage: h_prog <emu|avx|sse|mmx> <plan>\n"); return 2; }
  f = fopen (argv[2], "r");
  if (!f) { perror (argv[2]); return 2; }
  orc_init ();
  hc_init (argv[1]);
  HEMIT ("\"e\":\"Reset\"");
  while (getline (&line, &cap, f) > 0) {
    pid_t pid; int st;
    fflush (NULL);
    pid = fork ();
    if (pid == 0) { alarm (60); do_line (argv[1], line); _exit (0); }
    waitpid (pid, &st, 0);
    if (!WIFEXITED (st) || WEXITSTATUS (st) != 0) {
      line[strcspn (line, "\n")] = 0;
      HEMIT ("\"e\":\"Died\",\"plan\":\"%s\",\"path\":\"%s\",\"sig\":%d", line, argv[1], WIFSIGNALED (st) ? WTERMSIG (st) : 0);
    }
  }
  HEMIT ("\"e\":\"End\",\"leak\":0");
  free (line);
  fclose (f);
  return 0;
}
