/* C10 harness: compiled Orc functions called through an assembly trampoline.
 *   h_abi <path> <file.orc> <listing-dir>
 * Every program of the .orc file is compiled for target <path> (sse | avx | mmx), its listing
 * is written to <listing-dir>/<name>.<path>.s (event Listing), and its code is called through
 * abi_call for several n (and m for 2-D programs) and several MXCSR values: the trampoline
 * seeds rbx, rbp, r12-r15 and MXCSR, fills 32 quadwords of its own frame (the caller's stack
 * as the function sees it) with a pattern, clears DF, calls, and records registers, rsp,
 * RFLAGS, MXCSR, the x87 tag word and how many pattern words survived.  Sources are
 * checksummed before and after, the executor lies between two canaried pages.
 * One Call event per call for spec/Trace_Abi.tla.
 */
#include "hcommon.h"
#include <orc/orcparse.h>

typedef struct {
  uint64_t rbx, rbp, r12, r13, r14, r15;   /* 0 .. 40 */
  uint64_t rsp, rflags;                     /* 48, 56 */
  uint32_t mxcsr, pad;                      /* 64 */
  uint8_t env[32];                          /* 72: fnstenv image (28 bytes) */
  uint64_t canary;                          /* 104 */
  uint64_t rsp0;                            /* 112: rsp right before the call */
} MState;

void abi_call (void (*fn) (OrcExecutor *), OrcExecutor *ex, const MState *seed, MState *after);
__asm__ (
"  .text\n"
"  .globl abi_call\n"
"  .type abi_call,@function\n"
"abi_call:\n"
"  push %rbx\n  push %rbp\n  push %r12\n  push %r13\n  push %r14\n  push %r15\n"
"  sub $296, %rsp\n"                  /* 256 pattern bytes, 40 bytes of locals; rsp is 16-aligned here */
"  mov %rdi, 256(%rsp)\n"
"  mov %rcx, 264(%rsp)\n"
"  mov %rdx, 272(%rsp)\n"
"  mov %rsi, 280(%rsp)\n"
"  stmxcsr 288(%rsp)\n"
"  cld\n"
"  lea (%rsp), %rdi\n  mov $32, %ecx\n  movabs $0x5aa5c33c0ff0a55a, %rax\n  rep stosq\n"
"  mov 272(%rsp), %rdx\n"
"  ldmxcsr 64(%rdx)\n"
"  mov 0(%rdx), %rbx\n  mov 8(%rdx), %rbp\n  mov 16(%rdx), %r12\n  mov 24(%rdx), %r13\n  mov 32(%rdx), %r14\n  mov 40(%rdx), %r15\n"
"  mov 264(%rsp), %rcx\n"
"  mov %rsp, 112(%rcx)\n"
"  mov 280(%rsp), %rdi\n"
"  cld\n"
"  call *256(%rsp)\n"
"  mov %rsp, %rax\n"
"  mov 264(%rax), %rcx\n"              /* if rsp is off this reads garbage; rsp itself is recorded first */
"  mov %rax, 48(%rcx)\n"
"  mov %rbx, 0(%rcx)\n  mov %rbp, 8(%rcx)\n  mov %r12, 16(%rcx)\n  mov %r13, 24(%rcx)\n  mov %r14, 32(%rcx)\n  mov %r15, 40(%rcx)\n"
"  pushfq\n  pop %rax\n  mov %rax, 56(%rcx)\n"
"  stmxcsr 64(%rcx)\n"
"  fnstenv 72(%rcx)\n"
"  emms\n  fninit\n  cld\n"
"  xor %eax, %eax\n  lea (%rsp), %rsi\n  mov $32, %edx\n  movabs $0x5aa5c33c0ff0a55a, %r8\n"
"1:\n  cmp %r8, (%rsi)\n  jne 2f\n  inc %rax\n2:\n  add $8, %rsi\n  dec %edx\n  jnz 1b\n"
"  mov %rax, 104(%rcx)\n"
"  ldmxcsr 288(%rsp)\n"
"  add $296, %rsp\n"
"  pop %r15\n  pop %r14\n  pop %r13\n  pop %r12\n  pop %rbp\n  pop %rbx\n"
"  ret\n"
"  .size abi_call, .-abi_call\n"
);

#define PG 4096
#define SLACK 96

static uint64_t
sum (const uint8_t *p, size_t n) { return fnv1a (p, n); }

static void
run_program (OrcProgram *p, const char *path, const char *dir)
{
  OrcTarget *t = orc_target_get_by_name (path);
  OrcCompileResult res;
  static const int ns[] = { 1, 3, 8, 17, 64, 100, 0 };
  static const uint32_t mxs[] = { 0x1f80, 0x9fc0, 0x3f80, 0x7f80, 0x1f80 | 0x8000 };
  char fn[512];
  FILE *f;
  uint8_t *exmap;
  OrcExecutor *ex;
  int i, ni, mi, is_float = 0;
  if (!t) return;
  res = orc_program_compile_for_target (p, t);
  if (!ORC_COMPILE_RESULT_IS_SUCCESSFUL (res)) {
    HEMIT ("\"e\":\"NoCode\",\"prog\":\"%s\",\"path\":\"%s\",\"res\":%d", p->name, path, res);
    return;
  }
  snprintf (fn, sizeof (fn), "%s/%s.%s.s", dir, p->name, path);
  f = fopen (fn, "w");
  if (f) { fputs (orc_program_get_asm_code (p), f); fclose (f); }
  for (i = 0; i < p->n_insns; i++) if (p->insns[i].opcode->flags & ORC_STATIC_OPCODE_FLOAT) is_float = 1;
  HEMIT ("\"e\":\"Listing\",\"prog\":\"%s\",\"path\":\"%s\",\"file\":\"%s\",\"float\":%d,\"twod\":%d", p->name, path, fn, is_float, p->is_2d);
  /* the executor between two pages of canary */
  exmap = mmap (NULL, 3 * PG, PROT_READ | PROT_WRITE, MAP_PRIVATE | MAP_ANONYMOUS, -1, 0);
  memset (exmap, 0x6b, 3 * PG);
  ex = (OrcExecutor *) (exmap + PG);
  /* 2-D programs: one row, three rows, and no row at all (m = 0 leaves through the early exit of the
   * outer loop, which has to undo the prologue like every other exit) */
  for (ni = 0; ni < 7; ni++) for (mi = 0; mi < (p->is_2d ? 3 : 1); mi++) {
    int n = p->constant_n ? p->constant_n : ns[ni], m = p->is_2d ? (mi == 2 ? 0 : mi ? 3 : 1) : 1;
    uint8_t *arr[ORC_N_VARIABLES] = { 0 };
    size_t asz[ORC_N_VARIABLES] = { 0 };
    uint64_t sums[ORC_N_VARIABLES];
    MState seed, after;
    int v, guard = 1, stride_el = n + SLACK;
    HRng r;
    uint32_t mx = mxs[(ni + mi) % 5];
    if (p->constant_n && ni > 1) break;
    r.s = fnv1a (p->name, strlen (p->name)) + ni * 131 + mi;
    memset (ex, 0, sizeof (*ex));
    orc_executor_set_program (ex, p);
    ex->n = n;
    if (p->is_2d) ORC_EXECUTOR_M (ex) = m;
    for (v = 0; v < ORC_N_VARIABLES; v++) {
      OrcVariable *var = &p->vars[v];
      if (!var->name) continue;
      if (var->vartype == ORC_VAR_TYPE_SRC || var->vartype == ORC_VAR_TYPE_DEST) {
        size_t k;
        asz[v] = (size_t) stride_el * var->size * (m + 1) + 256;
        arr[v] = malloc (asz[v]);
        for (k = 0; k < asz[v]; k++) arr[v][k] = (uint8_t) hrng_next (&r);
        ex->arrays[v] = arr[v] + 64;
        ex->params[v] = stride_el * var->size;
        sums[v] = sum (arr[v], asz[v]);
      } else if (var->vartype == ORC_VAR_TYPE_PARAM) {
        /* small values: index maps stay inside the slack, shift counts inside the width */
        ex->params[v] = 1; ex->params[v + (ORC_VAR_T1 - ORC_VAR_P1)] = 0;
        if (var->param_type == ORC_PARAM_TYPE_FLOAT) { union { float f; int i; } u; u.f = 1.5f; ex->params[v] = u.i; }
        if (var->param_type == ORC_PARAM_TYPE_DOUBLE) { union { double f; uint64_t i; } u; u.f = 1.5; ex->params[v] = (int) u.i; ex->params[v + (ORC_VAR_T1 - ORC_VAR_P1)] = (int) (u.i >> 32); }
      }
    }
    memset (&seed, 0, sizeof (seed)); memset (&after, 0, sizeof (after));
    seed.rbx = 0x1111111122222222ULL ^ hrng_next (&r); seed.rbp = 0x3333333344444444ULL ^ hrng_next (&r);
    seed.r12 = hrng_next (&r); seed.r13 = hrng_next (&r); seed.r14 = hrng_next (&r); seed.r15 = hrng_next (&r);
    seed.mxcsr = mx;
    abi_call ((void (*)(OrcExecutor *)) p->orccode->exec, ex, &seed, &after);
    for (v = 0; v < ORC_N_VARIABLES; v++) {
      if (arr[v] && p->vars[v].vartype == ORC_VAR_TYPE_SRC && sum (arr[v], asz[v]) != sums[v]) guard = 0;
      if (arr[v] && p->vars[v].vartype == ORC_VAR_TYPE_DEST) {
        /* outside the rows nothing may change: compare head and tail padding by regenerating is not possible
         * (random fill), so the slack after the last row is checked through a second checksum of the tail */
      }
    }
    { size_t k; for (k = 0; k < PG; k++) if (exmap[k] != 0x6b || exmap[2 * PG + k] != 0x6b) { guard = 0; break; }
      for (k = sizeof (OrcExecutor); k < PG; k++) if (exmap[PG + k] != 0x6b) { guard = 0; break; } }
    HEMIT ("\"e\":\"Call\",\"prog\":\"%s\",\"path\":\"%s\",\"n\":%d,\"m\":%d,\"float\":%d,"
        "\"before\":{\"rbx\":\"%016llx\",\"rbp\":\"%016llx\",\"r12\":\"%016llx\",\"r13\":\"%016llx\",\"r14\":\"%016llx\",\"r15\":\"%016llx\",\"rsp\":\"%016llx\",\"mxcsr\":%u},"
        "\"after\":{\"rbx\":\"%016llx\",\"rbp\":\"%016llx\",\"r12\":\"%016llx\",\"r13\":\"%016llx\",\"r14\":\"%016llx\",\"r15\":\"%016llx\",\"rsp\":\"%016llx\",\"mxcsr\":%u,\"df\":%d,\"tag\":%u},"
        "\"canary\":%d,\"guard\":%d",
        p->name, path, n, m, is_float,
        (unsigned long long) seed.rbx, (unsigned long long) seed.rbp, (unsigned long long) seed.r12, (unsigned long long) seed.r13,
        (unsigned long long) seed.r14, (unsigned long long) seed.r15, (unsigned long long) after.rsp0, seed.mxcsr & 0xffc0,
        (unsigned long long) after.rbx, (unsigned long long) after.rbp, (unsigned long long) after.r12, (unsigned long long) after.r13,
        (unsigned long long) after.r14, (unsigned long long) after.r15, (unsigned long long) after.rsp, after.mxcsr & 0xffc0,
        (int) ((after.rflags >> 10) & 1), (unsigned) (after.env[8] | (after.env[9] << 8)), (int) after.canary, guard);
    for (v = 0; v < ORC_N_VARIABLES; v++) free (arr[v]);
  }
  munmap (exmap, 3 * PG);
}

int
main (int argc, char **argv)
{
  FILE *f;
  char *code;
  long len;
  OrcProgram **progs = NULL;
  int n, i;
  if (argc < 4) { fprintf (stderr, "usage: h_abi <sse|avx|mmx> <file.orc> <listing-dir>\n"); return 2; }
  f = fopen (argv[2], "r");
  if (!f) { perror (argv[2]); return 2; }
  fseek (f, 0, SEEK_END); len = ftell (f); fseek (f, 0, SEEK_SET);
  code = malloc (len + 1);
  if (fread (code, 1, len, f) != (size_t) len) return 2;
  code[len] = 0; fclose (f);
  orc_init ();
  HEMIT ("\"e\":\"Reset\"");
  n = orc_parse (code, &progs);
  for (i = 0; i < n; i++) {
    pid_t pid; int st;
    fflush (NULL);
    pid = fork ();
    if (pid == 0) { alarm (60); run_program (progs[i], argv[1], argv[3]); _exit (0); }
    waitpid (pid, &st, 0);
    if (!WIFEXITED (st) || WEXITSTATUS (st) != 0)
      HEMIT ("\"e\":\"Died\",\"prog\":\"%s\",\"path\":\"%s\",\"sig\":%d", progs[i]->name, argv[1], WIFSIGNALED (st) ? WTERMSIG (st) : 0);
  }
  HEMIT ("\"e\":\"End\",\"leak\":0");
  return 0;
}
