/* Builds a program through the construction API from a description line (tokens separated by '|'):
 *   N cn nmul nmin nmax twod cm namelen | D size align | S size align | A size |
 *   C size b0 b1 .. | P size ptype | T size | I flags opindex arg...
 * Variables are named d1.., s1.., a1.., c1.., p1.., t1.. in declaration order; the program
 * name is the letters b c d ... of the given length. */
#ifndef HBUILD_H
#define HBUILD_H
static OrcProgram *
build_program (char *line)
{
  OrcProgram *p = orc_program_new ();
  OrcOpcodeSet *os = orc_opcode_set_get ("sys");
  char *tok, *save = NULL;
  int nC = 0, nP = 0, nD = 0, nS = 0, nA = 0, nT = 0;
  for (tok = strtok_r (line, "|\n", &save); tok; tok = strtok_r (NULL, "|\n", &save)) {
    int v[16], n = 0, off = 0, used;
    char kind, word[32] = "";
    char name[16];
    if (sscanf (tok, " %c%n", &kind, &off) < 1) continue;
    if (kind == 'P') {
      int z; sscanf (tok + off, "%d %31s", &z, word);
      sprintf (name, "p%d", ++nP);
      if (!strcmp (word, "float")) orc_program_add_parameter_float (p, z, name);
      else if (!strcmp (word, "int64")) orc_program_add_parameter_int64 (p, z, name);
      else if (!strcmp (word, "double")) orc_program_add_parameter_double (p, z, name);
      else orc_program_add_parameter (p, z, name);
      continue;
    }
    while (n < 16 && sscanf (tok + off, "%d%n", &v[n], &used) == 1) { off += used; n++; }
    switch (kind) {
      case 'N': {
        char nm[300]; int i;
        if (v[0]) orc_program_set_constant_n (p, v[0]);
        if (v[1]) orc_program_set_n_multiple (p, v[1]);
        if (v[2]) orc_program_set_n_minimum (p, v[2]);
        if (v[3]) orc_program_set_n_maximum (p, v[3]);
        if (v[4]) { orc_program_set_2d (p); if (v[5]) orc_program_set_constant_m (p, v[5]); }
        for (i = 0; i < v[6] && i < 299; i++) nm[i] = (char) (97 + ((i + 1) % 26));
        nm[i] = 0;
        orc_program_set_name (p, nm);
        break; }
      case 'D': sprintf (name, "d%d", ++nD); orc_program_add_destination_full (p, v[0], name, "t", v[1]); break;
      case 'S': sprintf (name, "s%d", ++nS); orc_program_add_source_full (p, v[0], name, "t", v[1]); break;
      case 'A': sprintf (name, "a%d", ++nA); orc_program_add_accumulator (p, v[0], name); break;
      case 'T': sprintf (name, "t%d", ++nT); orc_program_add_temporary (p, v[0], name); break;
      case 'C': {
        orc_uint64 val = 0; int k, w = v[0] <= 4 ? 4 : 8;
        for (k = 0; k < w; k++) val |= (orc_uint64) (v[1 + k] & 0xff) << (8 * k);
        sprintf (name, "c%d", ++nC);
        if (v[0] <= 4) orc_program_add_constant (p, v[0], (int) (orc_uint32) val, name);
        else orc_program_add_constant_int64 (p, v[0], (orc_int64) val, name);
        break; }
      case 'I': {
        int a[4] = { ORC_VAR_D1, ORC_VAR_D1, ORC_VAR_D1, ORC_VAR_D1 }, k;
        for (k = 0; k < 4 && 2 + k < n; k++) a[k] = v[2 + k];
        orc_program_append_2 (p, os->opcodes[v[1]].name, v[0], a[0], a[1], a[2], a[3]);
        break; }
    }
  }
  return p;
}
#endif
