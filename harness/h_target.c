/* C19 harness: one child per CPU description.
 *   h_target <file>
 * each line:  <ecx1-hex> <edx1-hex> <ebx7-hex> <xcr0-hex> <var> <value|-> <json cpu list>
 * The child sets ORC_VERIF_CPUID (hook H7) and the override variable, initialises the
 * library and reports what an application sees: name of the default target,
 * OrcTarget.executable and default flags of the x86 targets, and whether a program compiled
 * and run through the default path gives the right result.
 */
#include "hcommon.h"

static const char *sse_names[] = { "SSE2", "SSE3", "SSSE3", "SSE41", "SSE42", "SSE4A", "SSE5", NULL, NULL, NULL, "AVX", "AVX2" };
static const char *mmx_names[] = { "MMX", "MMXEXT", "3DNOW", "3DNOWEXT", "SSSE3", "SSE41", "SSE42" };

static void
flag_list (HBuf *b, unsigned f, const char **names, int n)
{
  int i, first = 1;
  hb_printf (b, "[");
  for (i = 0; i < n; i++) if ((f & (1u << i)) && names[i]) { hb_printf (b, "%s\"%s\"", first ? "" : ",", names[i]); first = 0; }
  hb_printf (b, "]");
}

static void
child (char *line)
{
  char w[4][16], var[32], val[32];
  int off = 0, ok = -1, res = -1;
  char cpuid[80];
  OrcTarget *d, *t;
  HBuf b;
  const char *x86[] = { "mmx", "sse", "avx" };
  int i;
  if (sscanf (line, "%15s %15s %15s %15s %31s %31s %n", w[0], w[1], w[2], w[3], var, val, &off) < 6) _exit (0);
  snprintf (cpuid, sizeof (cpuid), "%s,%s,%s,%s", w[0], w[1], w[2], w[3]);
  setenv ("ORC_VERIF_CPUID", cpuid, 1);
  unsetenv ("ORC_BACKEND"); unsetenv ("ORC_TARGET");
  if (strcmp (val, "-")) setenv (var, !strcmp (val, "EMPTY") ? "" : val, 1);
  line[strcspn (line, "\n")] = 0;
  orc_init ();
  d = orc_target_get_default ();
  hb_init (&b);
  hb_printf (&b, "\"e\":\"Target\",\"cpu\":%s,\"xcr0\":%d,\"var\":\"%s\",\"val\":\"%s\",\"dflt\":\"%s\"", line + off,
      (int) strtol (w[3], NULL, 16), var, !strcmp (val, "-") ? "" : (!strcmp (val, "EMPTY") ? "" : val),
      d ? orc_target_get_name (d) : "none");
  for (i = 0; i < 3; i++) {
    t = orc_target_get_by_name (x86[i]);
    hb_printf (&b, ",\"x_%s\":%d,\"f_%s\":", x86[i], t ? t->executable : -1, x86[i]);
    flag_list (&b, t ? orc_target_get_default_flags (t) : 0, i == 0 ? mmx_names : sse_names, i == 0 ? 7 : 12);
  }
  if (d) {
    /* the default compile path, then a run: must be executable here */
    OrcProgram *p = orc_program_new_ds (1, 1);
    orc_uint8 s[40], dst[40];
    OrcExecutor ex;
    orc_program_append_ds_str (p, "copyb", "d1", "s1");
    res = orc_program_compile (p);
    for (i = 0; i < 40; i++) { s[i] = (orc_uint8) (i * 7 + 3); dst[i] = 0; }
    memset (&ex, 0, sizeof (ex));
    orc_executor_set_program (&ex, p);
    ex.n = 40; ex.arrays[ORC_VAR_D1] = dst; ex.arrays[ORC_VAR_S1] = s;
    if (!ORC_COMPILE_RESULT_IS_FATAL (res)) {
      orc_executor_run (&ex);
      ok = memcmp (s, dst, 40) == 0;
    }
    orc_program_free (p);
  }
  hb_printf (&b, ",\"res\":%d,\"ran\":%d", res, ok);
  HEMIT ("%s", b.s);
  _exit (0);
}

int
main (int argc, char **argv)
{
  FILE *f;
  char *line = NULL; size_t cap = 0;
  int bad = 0;
  if (argc < 2) return 2;
  f = fopen (argv[1], "r");
  if (!f) { perror (argv[1]); return 2; }
  HEMIT ("\"e\":\"Reset\"");
  while (getline (&line, &cap, f) > 0) {
    pid_t pid; int st;
    fflush (NULL);
    pid = fork ();
    if (pid == 0) { alarm (20); child (line); _exit (0); }
    waitpid (pid, &st, 0);
    if (!WIFEXITED (st) || WEXITSTATUS (st) != 0) {
      line[strcspn (line, "\n")] = 0;
      { char *q; for (q = line; *q; q++) if (*q == '"' || *q == '\\') *q = '\''; }
      HEMIT ("\"e\":\"Died\",\"line\":\"%.60s\",\"sig\":%d", line, WIFSIGNALED (st) ? WTERMSIG (st) : 0);
      bad++;
    }
  }
  HEMIT ("\"e\":\"End\",\"leak\":0");
  free (line);
  fclose (f);
  return bad ? 3 : 0;
}
