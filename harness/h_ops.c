/* C02 / C01 / C18 harness: one-opcode programs over chosen operand vectors.
 *   h_ops <path> <plan-file>
 * path: emu | avx | sse | mmx   (emulation, or native code for that target)
 * every line of the plan: <opcode> <mult 1|2|4> <mode> <seed>
 *   mode: ex8   all 256 values / all 65536 pairs of 8-bit operands (per lane)
 *         ex16  all 65536 values of a 16-bit first operand (second: seeded)
 *         bnd   boundary-biased operands (all sizes), seeded fill
 *         rnd   seeded random operands
 * For every block of elements one event is emitted:
 *   Run {op, x, path, n, off, sa, sb, sd, sd2, a:[bytes], b:[bytes], d:[bytes], d2:[bytes], acc:[bytes], cls}
 * a/b/d are the raw memory of the arrays (n elements); a constant / parameter second
 * operand (shift counts, scalar opcodes) is given once.  off = misalignment of the arrays in
 * elements, n crosses the 16-element chunks of the emulator and the vector widths.
 */
#include "hcommon.h"
#include "hcgen.h"

#define MAXN 1024
static orc_uint8 bufA[MAXN * 32 + 256], bufB[MAXN * 32 + 256], bufD[MAXN * 32 + 256], bufD2[MAXN * 32 + 256];

static const orc_uint64 bnd64[] = { 0, 1, 2, 3, 0x7e, 0x7f, 0x80, 0x81, 0xfe, 0xff, 0x100, 0x101, 0x7ffe, 0x7fff, 0x8000,
  0x8001, 0xfffe, 0xffff, 0x10000, 0x10001, 0x7ffffffe, 0x7fffffff, 0x80000000ULL, 0x80000001ULL, 0xfffffffeULL,
  0xffffffffULL, 0x100000000ULL, 0x7fffffffffffffffULL, 0x8000000000000000ULL, 0x8000000000000001ULL,
  0xfffffffffffffffeULL, 0xffffffffffffffffULL, 0x00ff00ff00ff00ffULL, 0xff00ff00ff00ff00ULL, 0x0123456789abcdefULL,
  0xfedcba9876543210ULL, 0x8080808080808080ULL, 0x7f7f7f7f7f7f7f7fULL, 0x0001000100010001ULL, 0xaaaaaaaaaaaaaaaaULL };
#define NBND ((int) (sizeof (bnd64) / sizeof (bnd64[0])))

static void
put (orc_uint8 *p, int size, orc_uint64 v) { int i; for (i = 0; i < size; i++) p[i] = (orc_uint8) (v >> (8 * i)); }

static void
bytes_json (HBuf *b, const char *key, const orc_uint8 *p, int n)
{
  int i;
  hb_printf (b, ",\"%s\":[", key);
  for (i = 0; i < n; i++) hb_printf (b, i ? ",%d" : "%d", p[i]);
  hb_printf (b, "]");
}

typedef struct { OrcProgram *p; OrcStaticOpcode *op; int mult; int sa, sb, sd, sd2; int scalar_b; int is_acc; int var_d, var_d2, var_a, var_b; HCFn cfn; } Prog;

static int tflags_given; static unsigned tflags;     /* path "<target>@<flags>": compile with exactly these target flags */
static const char *cur_mode = "";
static OrcCompileResult
compile_prog (OrcProgram *p, OrcTarget *t, const char *path)
{
  OrcCompileResult res = (tflags_given && t) ? orc_program_compile_full (p, t, tflags) : orc_program_compile_for_target (p, t);
  const char *dir = getenv ("H_LISTDIR");
  if (dir && t && ORC_COMPILE_RESULT_IS_SUCCESSFUL (res) && orc_program_get_asm_code (p)) {
    static int seq;
    char fn[512];
    FILE *f;
    snprintf (fn, sizeof (fn), "%s/%d_%d.s", dir, (int) getpid (), seq++);
    f = fopen (fn, "w");
    if (f) { fputs (orc_program_get_asm_code (p), f); fclose (f); }
    HEMIT ("\"e\":\"Listing\",\"op\":\"%s\",\"mode\":\"%s\",\"path\":\"%s\",\"file\":\"%s\"", p->name, cur_mode, path, fn);
  }
  return res;
}
static const char *cur_path = "";
static int force_kind;          /* 0: arrays, 1: second operand is a parameter, 2: a constant */
static orc_uint64 const_value;

static int
make (Prog *g, const char *opname, int mult, OrcTarget *t, int *cls)
{
  OrcStaticOpcode *op = orc_opcode_find_by_name (opname);
  unsigned flags = mult == 2 ? ORC_INSTRUCTION_FLAG_X2 : (mult == 4 ? ORC_INSTRUCTION_FLAG_X4 : 0);
  int args[4] = { ORC_VAR_D1, ORC_VAR_D1, ORC_VAR_D1, ORC_VAR_D1 }, na = 0, res;
  memset (g, 0, sizeof (*g));
  if (!op) return 0;
  g->op = op; g->mult = mult;
  g->sd = op->dest_size[0]; g->sd2 = op->dest_size[1]; g->sa = op->src_size[0]; g->sb = op->src_size[1];
  g->is_acc = (op->flags & ORC_STATIC_OPCODE_ACCUMULATOR) != 0;
  g->scalar_b = (op->flags & ORC_STATIC_OPCODE_SCALAR) != 0 && g->sb;
  if ((g->sd * mult > 8 && !g->is_acc) || g->sa * mult > 8 || g->sb * mult > 8) return 0;   /* no 16-byte variables */
  g->p = orc_program_new ();
  orc_program_set_name (g->p, opname);
  if (g->is_acc) g->var_d = orc_program_add_accumulator (g->p, g->sd, "a1");
  else g->var_d = orc_program_add_destination (g->p, g->sd * mult, "d1");
  args[na++] = g->var_d;
  if (g->sd2) { g->var_d2 = orc_program_add_destination (g->p, g->sd2 * mult, "d2"); args[na++] = g->var_d2; }
  g->var_a = orc_program_add_source (g->p, g->sa * mult, "s1"); args[na++] = g->var_a;
  if (g->sb) {
    if (force_kind == 2) {
      /* a constant operand has the size of the opcode's own operand, whatever the prefix */
      if (g->sb > 4) g->var_b = orc_program_add_constant_int64 (g->p, g->sb, (orc_int64) const_value, "c1");
      else g->var_b = orc_program_add_constant (g->p, g->sb, (int) const_value, "c1");
      g->scalar_b = 2;
    } else if (g->scalar_b || force_kind == 1) {
      if (g->sb > 4) g->var_b = orc_program_add_parameter_int64 (g->p, g->sb, "p1");
      else g->var_b = orc_program_add_parameter (g->p, g->sb, "p1");
      g->scalar_b = 1;
    } else g->var_b = orc_program_add_source (g->p, g->sb * mult, "s2");
    args[na++] = g->var_b;
  }
  orc_program_append_2 (g->p, opname, flags, args[0], args[1], args[2], args[3]);
  if (hc_mode == 'g') { *cls = hc_emit (g->p) ? 0 : 0x200; return 1; }
  if (hc_mode == 'r') { g->cfn = hc_next (); *cls = g->cfn ? 0 : 0x200; return 1; }
  res = compile_prog (g->p, t, cur_path);
  *cls = res;
  return 1;
}

static void
run_block (Prog *g, const char *path, int native, int n, int off, orc_uint64 bparam)
{
  OrcExecutor ex;
  HBuf ev;
  int ea = g->sa * g->mult, eb = g->sb * g->mult, ed = g->sd * g->mult, ed2 = g->sd2 * g->mult;
  orc_uint8 *A = bufA + 64 + off * ea, *B = bufB + 64 + off * (eb ? eb : 1), *D = bufD + 64 + off * (ed ? ed : 1),
      *D2 = bufD2 + 64 + off * (ed2 ? ed2 : 1);
  if (hc_mode == 'g' || getenv ("H_NORUN")) return;         /* the operands were drawn; nothing is run while generating */
  memset (&ex, 0, sizeof (ex));
  orc_executor_set_program (&ex, g->p);
  ex.n = n;
  if (!g->is_acc) { memset (D - 16, 0xa5, n * ed + 32); ex.arrays[g->var_d] = D; }
  if (g->sd2) { memset (D2 - 16, 0xa5, n * ed2 + 32); ex.arrays[g->var_d2] = D2; }
  ex.arrays[g->var_a] = A;
  if (g->sb) {
    if (g->scalar_b == 1) { ex.params[g->var_b] = (int) bparam; ex.params[g->var_b + (ORC_VAR_T1 - ORC_VAR_P1)] = (int) (bparam >> 32); }
    else if (g->scalar_b == 0) ex.arrays[g->var_b] = B;
  }
  if (g->cfn) g->cfn (&ex); else if (native) orc_executor_run (&ex); else orc_executor_emulate (&ex);
  hb_init (&ev);
  hb_printf (&ev, "\"e\":\"Run\",\"op\":\"%s\",\"x\":%d,\"path\":\"%s\",\"n\":%d,\"off\":%d,\"sa\":%d,\"sb\":%d,\"sd\":%d,\"sd2\":%d,\"acc\":%d,\"sc\":%d",
      g->op->name, g->mult, path, n, off, g->sa, g->sb, g->sd, g->sd2, g->is_acc, g->scalar_b ? 1 : 0);
  bytes_json (&ev, "a", A, n * ea);
  if (g->sb) {
    if (g->scalar_b) { orc_uint8 t[8]; put (t, g->sb, bparam); bytes_json (&ev, "b", t, g->sb); }
    else bytes_json (&ev, "b", B, n * eb);
  } else bytes_json (&ev, "b", A, 0);
  if (g->is_acc) { orc_uint8 t[8]; put (t, g->sd, (orc_uint32) ex.accumulators[g->var_d - ORC_VAR_A1]); bytes_json (&ev, "d", t, g->sd); }
  else bytes_json (&ev, "d", D, n * ed);
  bytes_json (&ev, "d2", D2, g->sd2 ? n * ed2 : 0);
  /* the bytes just outside the destination must be untouched */
  {
    int k, ok = 1;
    if (!g->is_acc) for (k = 1; k <= 16; k++) if (D[-k] != 0xa5 || D[n * ed + k - 1] != 0xa5) ok = 0;
    hb_printf (&ev, ",\"fence\":%d", ok);
  }
  HEMIT ("%s", ev.s);
  hb_free (&ev);
}

static orc_uint64
pick (HRng *r, int size, int mode)
{
  orc_uint64 v;
  if (mode == 0 || hrng_below (r, 3)) v = bnd64[hrng_below (r, NBND)];
  else v = hrng_next (r);
  if (hrng_below (r, 4) == 0) v += (orc_uint64) hrng_below (r, 5) - 2;
  return size >= 8 ? v : v & ((1ULL << (8 * size)) - 1);
}


/* ------------------------------------------------------------------ float modes (C18)
 * flt: operands from structured tables (all pairs of the table, then seeded random), second
 * operand an array; fpar / fcon: second operand a float / double parameter / constant.
 * FRun events carry, for the opcodes with a rounded core, the operands as this harness flushed
 * them and the host's IEEE result in round-to-nearest (fa, fb, h) for spec/OrcFloat.tla. */
#include <math.h>
#include <xmmintrin.h>
static const orc_uint32 ftab[] = { 0x00000000, 0x80000000, 0x00000001, 0x807fffff, 0x007fffff, 0x80000001, 0x00800000, 0x80800000,
  0x00800001, 0x00ffffff, 0x01000000, 0x3f800000, 0xbf800000, 0x40000000, 0xc0000000, 0x3f000000, 0x3fc00000, 0x40200000,
  0x40600000, 0x3effffff, 0x3f000001, 0x3f7fffff, 0x3f800001, 0x33800000, 0x34000000, 0x4b000000, 0x4b7fffff, 0x4b800000,
  0x4b800001, 0xcb800001, 0x4effffff, 0x4f000000, 0xcf000000, 0xcf000001, 0x4f000001, 0xceffffff, 0x4f800000, 0x5f000000,
  0x7f7fffff, 0xff7fffff, 0x7f000000, 0x7e800000, 0x7f800000, 0xff800000, 0x7fc00000, 0xffc00000, 0x7f800001, 0xffffffff,
  0x1e000000, 0x20000000, 0x60000000, 0x40490fdb, 0xc2f6e979, 0x3eaaaaab, 0x461c4000, 0x3a83126f, 0x00400000, 0x80400000,
  0x3fffffff, 0x40400000 };
#define NFT ((int) (sizeof (ftab) / sizeof (ftab[0])))
static const orc_uint64 dtab[] = { 0x0000000000000000ULL, 0x8000000000000000ULL, 0x0000000000000001ULL, 0x800fffffffffffffULL,
  0x000fffffffffffffULL, 0x0010000000000000ULL, 0x8010000000000000ULL, 0x0010000000000001ULL, 0x3ff0000000000000ULL,
  0xbff0000000000000ULL, 0x4000000000000000ULL, 0x3fe0000000000000ULL, 0x3ff8000000000000ULL, 0x4004000000000000ULL,
  0x3fdfffffffffffffULL, 0x3fe0000000000001ULL, 0x3fefffffffffffffULL, 0x3ff0000000000001ULL, 0x41dfffffffc00000ULL,
  0x41e0000000000000ULL, 0xc1e0000000000000ULL, 0xc1e0000000200000ULL, 0x41dfffffffe00000ULL, 0xc1e0000000100000ULL,
  0x41f0000000000000ULL, 0x4330000000000000ULL, 0x433fffffffffffffULL, 0x4340000000000000ULL, 0x7fefffffffffffffULL,
  0xffefffffffffffffULL, 0x7fe0000000000000ULL, 0x7ff0000000000000ULL, 0xfff0000000000000ULL, 0x7ff8000000000000ULL,
  0xfff8000000000000ULL, 0x7ff0000000000001ULL, 0xffffffffffffffffULL, 0x3690000000000000ULL, 0x36a0000000000000ULL,
  0x380fffffffffffffULL, 0x3810000000000000ULL, 0x380ffffff0000000ULL, 0x47efffffe0000000ULL, 0x47effffff0000000ULL,
  0x47f0000000000000ULL, 0x3ff0000010000000ULL, 0x3ff0000030000000ULL, 0x3ff0000010000001ULL, 0x400921fb54442d18ULL,
  0xc05edd2f1a9fbe77ULL, 0x3fd5555555555555ULL, 0x1ff0000000000000ULL, 0x5ff0000000000000ULL, 0x0008000000000000ULL,
  0x36f0000000000000ULL, 0xb6a0000000000001ULL };
#define NDT ((int) (sizeof (dtab) / sizeof (dtab[0])))
static const orc_uint32 itab[] = { 0, 1, 2, 3, 0xffffffff, 0xfffffffe, 0x7fffffff, 0x80000000, 0x80000001, 0x7ffffffe, 0x00ffffff,
  0x01000000, 0x01000001, 0x01000002, 0x01000003, 0x02000002, 0x02000003, 0x02000006, 0xff000000, 0xfeffffff, 0xfefffffe,
  0x7fffff80, 0x7fffffc0, 0x7fffffbf, 0x7fffff40, 0x80000080, 0x800000c0, 0x00800000, 0x00800001, 0x7fff, 0x8000, 0xffff8000,
  0xffff7fff, 0x12345678, 0x87654321, 0x3fffffff, 0x40000000, 0x40000040, 0x40000041, 0x4000003f };
#define NIT ((int) (sizeof (itab) / sizeof (itab[0])))

static orc_uint32 flush32 (orc_uint32 v) { return (v & 0x7f800000) ? v : (v & 0x80000000); }
static orc_uint64 flush64 (orc_uint64 v) { return (v & 0x7ff0000000000000ULL) ? v : (v & 0x8000000000000000ULL); }
static orc_uint64 getv (const orc_uint8 *p, int size) { orc_uint64 v = 0; int i; for (i = 0; i < size; i++) v |= (orc_uint64) p[i] << (8 * i); return v; }

/* host IEEE arithmetic in round-to-nearest on flushed operands; 0 when the opcode has no rounded core */
static int
oracle (const char *op, orc_uint64 fa, orc_uint64 fb, orc_uint64 *h)
{
  size_t L = strlen (op);
  if (!strcmp (op, "convdf")) { union { double d; orc_uint64 i; } a; union { float f; orc_uint32 i; } r; volatile double t; a.i = fa; t = a.d; r.f = (float) t; *h = r.i; return 1; }
  if (L == 4 && op[3] == 'f' && (!strncmp (op, "add", 3) || !strncmp (op, "sub", 3) || !strncmp (op, "mul", 3) || !strncmp (op, "div", 3))) {
    union { float f; orc_uint32 i; } a, b, r; volatile float x, y, z; a.i = (orc_uint32) fa; b.i = (orc_uint32) fb; x = a.f; y = b.f;
    z = op[0] == 'a' ? x + y : op[0] == 's' ? x - y : op[0] == 'm' ? x * y : x / y; r.f = z; *h = r.i; return 1;
  }
  if (L == 4 && op[3] == 'd' && (!strncmp (op, "add", 3) || !strncmp (op, "sub", 3) || !strncmp (op, "mul", 3) || !strncmp (op, "div", 3))) {
    union { double f; orc_uint64 i; } a, b, r; volatile double x, y, z; a.i = fa; b.i = fb; x = a.f; y = b.f;
    z = op[0] == 'a' ? x + y : op[0] == 's' ? x - y : op[0] == 'm' ? x * y : x / y; r.f = z; *h = r.i; return 1;
  }
  if (!strcmp (op, "sqrtf")) { union { float f; orc_uint32 i; } a, r; volatile float x; a.i = (orc_uint32) fa; x = a.f; r.f = sqrtf (x); *h = r.i; return 1; }
  if (!strcmp (op, "sqrtd")) { union { double f; orc_uint64 i; } a, r; volatile double x; a.i = fa; x = a.f; r.f = sqrt (x); *h = r.i; return 1; }
  return 0;
}

static orc_uint64
fpick (HRng *r, int size, int intsrc, unsigned long idx, int second, int random)
{
  if (intsrc) return random ? (orc_uint32) hrng_next (r) : itab[idx % NIT];
  if (size == 4) {
    if (!random) return second ? ftab[(idx / NFT + idx) % NFT] : ftab[idx % NFT];
    { orc_uint32 v = (orc_uint32) hrng_next (r); if (hrng_below (r, 4)) v = (v & 0x807fffff) | ((100 + hrng_below (r, 56)) << 23); return v; }
  }
  if (!random) return second ? dtab[(idx / NDT + idx) % NDT] : dtab[idx % NDT];
  { orc_uint64 v = hrng_next (r); if (hrng_below (r, 4)) v = (v & 0x800fffffffffffffULL) | ((orc_uint64) (1000 + hrng_below (r, 48)) << 52); return v; }
}

static int
fmake (Prog *g, const char *opname, int mult, OrcTarget *t, int *cls, int kind, orc_uint64 cbits)
{
  OrcStaticOpcode *op = orc_opcode_find_by_name (opname);
  unsigned flags = mult == 2 ? ORC_INSTRUCTION_FLAG_X2 : (mult == 4 ? ORC_INSTRUCTION_FLAG_X4 : 0);
  int args[4] = { ORC_VAR_D1, ORC_VAR_D1, ORC_VAR_D1, ORC_VAR_D1 }, na = 0;
  memset (g, 0, sizeof (*g));
  if (!op) return 0;
  g->op = op; g->mult = mult;
  g->sd = op->dest_size[0]; g->sa = op->src_size[0]; g->sb = op->src_size[1];
  if (g->sd * mult > 8 || g->sa * mult > 8 || g->sb * mult > 8) return 0;
  if (kind && !g->sb) return 0;
  g->p = orc_program_new ();
  orc_program_set_name (g->p, opname);
  g->var_d = orc_program_add_destination (g->p, g->sd * mult, "d1"); args[na++] = g->var_d;
  g->var_a = orc_program_add_source (g->p, g->sa * mult, "s1"); args[na++] = g->var_a;
  if (g->sb) {
    if (kind == 2) {
      if (g->sb > 4) g->var_b = orc_program_add_constant_int64 (g->p, 8, (orc_int64) cbits, "c1");
      else g->var_b = orc_program_add_constant (g->p, 4, (int) cbits, "c1");
      g->scalar_b = 2;
    } else if (kind == 1) {
      if (g->sb > 4) g->var_b = orc_program_add_parameter_double (g->p, 8, "p1");
      else g->var_b = orc_program_add_parameter_float (g->p, 4, "p1");
      g->scalar_b = 1;
    } else g->var_b = orc_program_add_source (g->p, g->sb * mult, "s2");
    args[na++] = g->var_b;
  }
  orc_program_append_2 (g->p, opname, flags, args[0], args[1], args[2], args[3]);
  if (hc_mode == 'g') { *cls = hc_emit (g->p) ? 0 : 0x200; return 1; }
  if (hc_mode == 'r') { g->cfn = hc_next (); *cls = g->cfn ? 0 : 0x200; return 1; }
  *cls = compile_prog (g->p, t, cur_path);
  return 1;
}

static void
frun_block (Prog *g, const char *path, int native, int n, int off, orc_uint64 bscalar)
{
  OrcExecutor ex;
  HBuf ev;
  static orc_uint8 FA[MAXN * 8], FB[MAXN * 8], H[MAXN * 8];
  int ea = g->sa * g->mult, eb = g->sb * g->mult, ed = g->sd * g->mult, j, l, has_oracle = 0, ok = 1, k;
  orc_uint8 *A = bufA + 64 + off * ea, *B = bufB + 64 + off * (eb ? eb : 1), *D = bufD + 64 + off * ed;
  if (hc_mode == 'g' || getenv ("H_NORUN")) return;
  _mm_setcsr (0x1f80);
  for (j = 0; j < n; j++) for (l = 0; l < g->mult; l++) {
    orc_uint64 a = getv (A + j * ea + l * g->sa, g->sa), b = g->sb ? (g->scalar_b ? bscalar : getv (B + j * eb + l * g->sb, g->sb)) : 0, h = 0;
    orc_uint64 fa = g->sa == 4 ? flush32 ((orc_uint32) a) : flush64 (a), fb = g->sb == 4 ? flush32 ((orc_uint32) b) : flush64 (b);
    if (oracle (g->op->name, fa, fb, &h)) {
      has_oracle = 1;
      put (FA + j * ea + l * g->sa, g->sa, fa);
      if (g->sb) put (FB + (g->scalar_b ? 0 : j * eb + l * g->sb), g->sb, fb);
      put (H + j * ed + l * g->sd, g->sd, h);
    }
  }
  memset (&ex, 0, sizeof (ex));
  orc_executor_set_program (&ex, g->p);
  ex.n = n;
  memset (D - 16, 0xa5, n * ed + 32);
  ex.arrays[g->var_d] = D;
  ex.arrays[g->var_a] = A;
  if (g->sb) {
    if (g->scalar_b == 1) { ex.params[g->var_b] = (int) bscalar; ex.params[g->var_b + (ORC_VAR_T1 - ORC_VAR_P1)] = (int) (bscalar >> 32); }
    else if (g->scalar_b == 0) ex.arrays[g->var_b] = B;
  }
  _mm_setcsr (0x1f80);
  if (g->cfn) g->cfn (&ex); else if (native) orc_executor_run (&ex); else orc_executor_emulate (&ex);
  { unsigned csr = _mm_getcsr (); _mm_setcsr (0x1f80); hb_init (&ev); hb_printf (&ev, "\"e\":\"FRun\",\"op\":\"%s\",\"x\":%d,\"path\":\"%s\",\"n\":%d,\"off\":%d,\"sa\":%d,\"sb\":%d,\"sd\":%d,\"sc\":%d,\"csr\":%u",
      g->op->name, g->mult, path, n, off, g->sa, g->sb, g->sd, g->scalar_b ? 1 : 0, csr & 0xffc0); }
  bytes_json (&ev, "a", A, n * ea);
  if (g->sb) {
    if (g->scalar_b) { orc_uint8 t8[8]; put (t8, g->sb, bscalar); bytes_json (&ev, "b", t8, g->sb); }
    else bytes_json (&ev, "b", B, n * eb);
  } else bytes_json (&ev, "b", A, 0);
  bytes_json (&ev, "d", D, n * ed);
  if (has_oracle) {
    bytes_json (&ev, "fa", FA, n * ea);
    if (g->sb) bytes_json (&ev, "fb", FB, g->scalar_b ? g->sb : n * eb); else bytes_json (&ev, "fb", FA, 0);
    bytes_json (&ev, "h", H, n * ed);
  }
  for (k = 1; k <= 16; k++) if (D[-k] != 0xa5 || D[n * ed + k - 1] != 0xa5) ok = 0;
  hb_printf (&ev, ",\"fence\":%d", ok);
  HEMIT ("%s", ev.s);
  hb_free (&ev);
}

static void
do_float (const char *path, const char *opname, int mult, const char *mode, unsigned long seed, int native, OrcTarget *t)
{
  static const int ns[] = { 1, 15, 16, 17, 33, 64, 7, 3, 31, 32, 100, 5, 8, 4 };
  OrcStaticOpcode *o = orc_opcode_find_by_name (opname);
  int kind = !strcmp (mode, "fpar") ? 1 : (!strcmp (mode, "fcon") ? 2 : 0), cls = 0, intsrc, T, c, round = 0;
  unsigned long idx = 0, total;
  HRng r;
  Prog g;
  if (!o) return;
  r.s = seed * 0x9e3779b97f4a7c15ULL + fnv1a (opname, strlen (opname));
  intsrc = !(o->flags & (ORC_STATIC_OPCODE_FLOAT_SRC)) ? 1 : 0;
  if (o->src_size[0] == 2) intsrc = 1;
  T = intsrc ? NIT : (o->src_size[0] == 4 ? NFT : NDT);
  for (c = 0; c < (kind ? 10 : 1); c++) {
    /* one program per scalar value (a constant is part of the program) */
    orc_uint64 bs = kind ? fpick (&r, o->src_size[1], 0, (unsigned long) hrng_next (&r), 0, c >= 7) : 0;
    if (!fmake (&g, opname, mult, t, &cls, kind, bs)) return;
    if ((native || hc_mode) && !ORC_COMPILE_RESULT_IS_SUCCESSFUL (cls)) {
      if (hc_mode != 'g') HEMIT ("\"e\":\"NoCode\",\"op\":\"%s\",\"x\":%d,\"path\":\"%s\",\"res\":%d", opname, mult, path, cls);
      orc_program_free (g.p); return;
    }
    if (!native && !hc_mode && (ORC_COMPILE_RESULT_IS_FATAL (cls) || !g.p->orccode)) { orc_program_free (g.p); return; }
    total = kind ? (unsigned long) T : (g.sb ? (unsigned long) T * T : (unsigned long) T);
    idx = 0;
    /* the table (all pairs), then seeded random operands */
    while (idx < total + (kind ? 64 : 640)) {
      int n = ns[round % 14], off = round % 5, j, l;
      round++;
      for (j = 0; j < n + off; j++) for (l = 0; l < mult; l++) {
        int random = idx >= total;
        put (bufA + 64 + (j * mult + l) * g.sa, g.sa, fpick (&r, g.sa, intsrc, idx, 0, random));
        if (g.sb && !g.scalar_b) put (bufB + 64 + (j * mult + l) * g.sb, g.sb, fpick (&r, g.sb, 0, idx, 1, random));
        if (j >= off) idx++;
      }
      frun_block (&g, path, native, n, off, bs);
    }
    orc_program_free (g.p);
  }
}

static void
do_line (const char *path, char *line)
{
  char opname[32], mode[16];
  int mult = 1, cls = 0, native = strcmp (path, "emu") != 0 && !hc_mode, i, j;
  unsigned long seed = 1;
  Prog g;
  OrcTarget *t = NULL;
  HRng r;
  static const int ns[] = { 1, 15, 16, 17, 33, 64, 7, 3, 31, 32, 100 };
  if (native) {
    char tn[16]; const char *at = strchr (path, '@');
    snprintf (tn, sizeof (tn), "%.*s", at ? (int) (at - path) : 15, path);
    t = orc_target_get_by_name (tn);
    if (at) { tflags_given = 1; tflags = (unsigned) strtoul (at + 1, NULL, 0); }
  }
  cur_path = path;
  if (sscanf (line, "%31s %d %15s %lu", opname, &mult, mode, &seed) < 3) return;
  cur_mode = mode;
  hc_begin_line (line);
  r.s = seed * 0x9e3779b97f4a7c15ULL + fnv1a (opname, strlen (opname));
  if (!strcmp (mode, "flt") || !strcmp (mode, "fpar") || !strcmp (mode, "fcon")) { do_float (path, opname, mult, mode, seed, native, t); return; }
  force_kind = !strcmp (mode, "par") ? 1 : (!strcmp (mode, "con") ? 2 : 0);
  if (force_kind == 2) {
    /* the constant is part of the program: one program per constant value */
    int c;
    for (c = 0; c < 6; c++) {
      OrcStaticOpcode *o = orc_opcode_find_by_name (opname);
      int shiftop = o && (o->flags & ORC_STATIC_OPCODE_SCALAR);
      const_value = pick (&r, o && o->src_size[1] ? o->src_size[1] : 1, 0);
      if (shiftop && o->src_size[1]) const_value %= 8 * o->src_size[0];
      if (!strcmp (opname, "divluw") && (const_value & 0xff) == 0) const_value |= 1;
      if (!make (&g, opname, mult, t, &cls)) return;
      if (hc_mode && g.sb && cls) { if (hc_mode == 'r') HEMIT ("\"e\":\"NoCode\",\"op\":\"%s\",\"x\":%d,\"path\":\"%s\",\"res\":%d", opname, mult, path, cls); orc_program_free (g.p); return; }
      if (!g.sb || (native && !ORC_COMPILE_RESULT_IS_SUCCESSFUL (cls)) || (!native && !hc_mode && (ORC_COMPILE_RESULT_IS_FATAL (cls) || !g.p->orccode))) {
        orc_program_free (g.p); return;
      }
      for (i = 0; i < 6; i++) {
        int n = ns[(i + c) % 11], off = i % 3, l;
        for (j = 0; j < n + off; j++) for (l = 0; l < mult; l++) put (bufA + 64 + j * g.sa * mult + l * g.sa, g.sa, pick (&r, g.sa, i & 1));
        run_block (&g, path, native, n, off, const_value);
      }
      orc_program_free (g.p);
    }
    return;
  }
  if (!make (&g, opname, mult, t, &cls)) return;
  if (hc_mode == 'g') { orc_program_free (g.p); return; }
  if ((native || hc_mode) && !ORC_COMPILE_RESULT_IS_SUCCESSFUL (cls)) {
    HEMIT ("\"e\":\"NoCode\",\"op\":\"%s\",\"x\":%d,\"path\":\"%s\",\"res\":%d", opname, mult, path, cls);
    orc_program_free (g.p);
    return;
  }
  if (!native && !hc_mode && (ORC_COMPILE_RESULT_IS_FATAL (cls) || !g.p->orccode)) { orc_program_free (g.p); return; }
  {
    int ea = g.sa * mult, eb = g.sb * mult;
    if (!strcmp (mode, "ex8") && g.sa == 1 && (g.sb == 0 || g.sb == 1)) {
      /* every value (pair) of 8-bit operands, in every lane, 256 elements per block */
      int blocks = (g.sb && !g.scalar_b) ? 256 : 1;
      int cnt0 = g.scalar_b ? 8 : 1;
      int bc;
      for (bc = 0; bc < cnt0; bc++)
        for (i = 0; i < blocks; i++) {
          int rot = hrng_below (&r, 256);
          for (j = 0; j < 256; j++) {
            int l;
            for (l = 0; l < mult; l++) {
              bufA[64 + j * ea + l] = (orc_uint8) ((j + rot + l * 37) & 0xff);
              if (g.sb && !g.scalar_b) bufB[64 + j * eb + l] = (orc_uint8) ((i + l * 11) & 0xff);
            }
          }
          run_block (&g, path, native, 256, 0, bc);
        }
    } else if (!strcmp (mode, "ex16") && g.sa == 2) {
      /* every value of a 16-bit first operand; second operand from the boundary set */
      int pass, npass = g.sb ? (getenv ("H_EX16_PASSES") ? atoi (getenv ("H_EX16_PASSES")) : 1) : 1;
      for (pass = 0; pass < npass; pass++)
        for (i = 0; i < 256; i++) {
          orc_uint64 bfix = pick (&r, g.sb ? g.sb : 1, 0);
          for (j = 0; j < 256; j++) {
            int l;
            for (l = 0; l < mult; l++) {
              put (bufA + 64 + j * ea + l * 2, 2, (orc_uint64) ((i * 256 + j + l * 4099) & 0xffff));
              if (g.sb && !g.scalar_b) put (bufB + 64 + j * eb + l * g.sb, g.sb, (pass & 1) ? pick (&r, g.sb, 0) : bfix);
            }
          }
          run_block (&g, path, native, 256, 0, g.scalar_b ? (bfix % (8 * g.sa)) : 0);
        }
    } else {
      /* boundary-biased / random operands; n and misalignment vary */
      int rounds = !strcmp (mode, "rnd") ? 24 : (force_kind ? 30 : 40);
      int md = !strcmp (mode, "rnd");
      for (i = 0; i < rounds; i++) {
        int n = ns[i % 11], off = (i / 3) % 5;
        orc_uint64 bp = pick (&r, g.sb ? g.sb : 1, 0);
        if (g.op->flags & ORC_STATIC_OPCODE_SCALAR) bp = bp % (8 * g.sa);
        if (!strcmp (opname, "divluw")) bp |= 1;
        for (j = 0; j < n + off; j++) {
          int l;
          for (l = 0; l < mult; l++) {
            put (bufA + 64 + j * ea + l * g.sa, g.sa, pick (&r, g.sa, md));
            if (g.sb && !g.scalar_b) {
              orc_uint64 v = pick (&r, g.sb, md);
              if (!strcmp (opname, "divluw") && (v & 0xff) == 0) v |= 1;     /* divisor 0 is outside the reference */
              put (bufB + 64 + j * eb + l * g.sb, g.sb, v);
            }
          }
        }
        run_block (&g, path, native, n, off, bp);
      }
    }
  }
  orc_program_free (g.p);
}

int
main (int argc, char **argv)
{
  FILE *f;
  char *line = NULL; size_t cap = 0;
  if (argc < 3) { fprintf (stderr, "usage: h_ops <emu|avx|sse|mmx> <plan>\n"); return 2; }
  f = fopen (argv[2], "r");
  if (!f) { perror (argv[2]); return 2; }
  orc_init ();
  hc_init (argv[1]);
  HEMIT ("\"e\":\"Reset\"");
  while (getline (&line, &cap, f) > 0) {
    pid_t pid; int st;
    fflush (NULL);
    pid = fork ();
    if (pid == 0) { alarm (120); do_line (argv[1], line); _exit (0); }
    waitpid (pid, &st, 0);
    if (!WIFEXITED (st) || WEXITSTATUS (st) != 0) {
      line[strcspn (line, "\n")] = 0;
      HEMIT ("\"e\":\"Died\",\"plan\":\"%s\",\"path\":\"%s\",\"sig\":%d", line, argv[1], WIFSIGNALED (st) ? WTERMSIG (st) : 0);
    }
  }
  HEMIT ("\"e\":\"End\",\"leak\":0");
  free (line);
  fclose (f);
  return 0;
}
