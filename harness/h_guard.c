/* C03 harness: arrays mapped exactly as large as the program is entitled to.
 *   h_guard <path> <plan>
 * plan line: <kind> <opcode> <n> <off> <b> <c> <lo> <hi> <place 0|1> <m>
 *   kind: plain | loadoff | loadupdb | loadupib | ldresnear | ldreslin   (spec/Footprint.tla)
 *   lo..hi: source element indices the specification entitles (hi < lo: none)
 *   place 0: every array ends right before a PROT_NONE page; 1: starts right after one
 *   m: rows (2-D when > 1; the rows are separated by canaried gaps)
 * Sources are mapped read-only.  One Access event per line: fault (SIGSEGV/SIGBUS caught:
 * array and element offset), canary, and whether the destination equals what emulation of
 * the same program on ordinary memory gives.
 */
#include "hcommon.h"
#include "hcgen.h"
#include <setjmp.h>

#define PG 4096
static sigjmp_buf jb;
static volatile void *fault_addr;
static void on_fault (int sig, siginfo_t *si, void *u) { fault_addr = si->si_addr; siglongjmp (jb, 1); }

typedef struct { orc_uint8 *map; size_t maplen; orc_uint8 *base; int bytes; } Arr;

/* an array of `bytes` bytes flush against a guard page; writable now, protected later */
static int
arr_alloc (Arr *a, int bytes, int place)
{
  size_t data = ((bytes + PG - 1) / PG) * PG;
  if (data == 0) data = PG;
  a->maplen = data + 2 * PG;
  a->map = mmap (NULL, a->maplen, PROT_READ | PROT_WRITE, MAP_PRIVATE | MAP_ANONYMOUS, -1, 0);
  if (a->map == MAP_FAILED) return 0;
  mprotect (a->map, PG, PROT_NONE);
  mprotect (a->map + PG + data, PG, PROT_NONE);
  a->bytes = bytes;
  a->base = place ? a->map + PG : a->map + PG + data - bytes;
  memset (a->map + PG, 0xa5, data);
  return 1;
}
static void arr_free (Arr *a) { if (a->map) munmap (a->map, a->maplen); a->map = NULL; }
static const char *
which (Arr *arrs, const char **names, int n, void *addr, long *eloff, int esize[])
{
  int i;
  for (i = 0; i < n; i++)
    if (arrs[i].map && (orc_uint8 *) addr >= arrs[i].map && (orc_uint8 *) addr < arrs[i].map + arrs[i].maplen) {
      long d = (orc_uint8 *) addr - arrs[i].base;
      *eloff = d >= 0 ? d / esize[i] : -((-d + esize[i] - 1) / esize[i]);
      return names[i];
    }
  *eloff = 0;
  return "elsewhere";
}

static void
do_line (const char *path, char *line)
{
  char kind[16], opname[32];
  int n, off, b, c, lo, hi, place, m, native = strcmp (path, "emu") != 0, res, i, r;
  HCFn cfn = NULL;
  OrcStaticOpcode *op;
  OrcProgram *p;
  OrcExecutor ex;
  Arr arrs[4];
  const char *names[4] = { "d1", "d2", "s1", "s2" };
  int esize[4] = { 1, 1, 1, 1 }, used[4] = { 0, 0, 0, 0 };
  int var[4] = { -1, -1, -1, -1 };
  int args[4], na = 0, special;
  int rowel_src, stride[4];
  struct sigaction sa;
  int fault = 0, canary = 1, same = 1;
  long eloff = 0;
  const char *farr = "";
  HRng rng = { 77 };
  static orc_uint8 ref[4][70000];

  if (sscanf (line, "%15s %31s %d %d %d %d %d %d %d %d", kind, opname, &n, &off, &b, &c, &lo, &hi, &place, &m) < 10) return;
  op = orc_opcode_find_by_name (opname);
  if (!op) return;
  hc_begin_line (line);
  special = strcmp (kind, "plain") != 0;
  memset (arrs, 0, sizeof (arrs));
  p = orc_program_new ();
  orc_program_set_name (p, opname);
  if (m > 1) orc_program_set_2d (p);
  if (op->flags & ORC_STATIC_OPCODE_ACCUMULATOR) { var[0] = orc_program_add_accumulator (p, op->dest_size[0], "a1"); }
  else { var[0] = orc_program_add_destination (p, op->dest_size[0], "d1"); used[0] = 1; esize[0] = op->dest_size[0]; }
  args[na++] = var[0];
  if (op->dest_size[1]) { var[1] = orc_program_add_destination (p, op->dest_size[1], "d2"); used[1] = 1; esize[1] = op->dest_size[1]; args[na++] = var[1]; }
  var[2] = orc_program_add_source (p, op->src_size[0], "s1"); used[2] = 1; esize[2] = op->src_size[0]; args[na++] = var[2];
  if (special) {
    if (!strcmp (kind, "loadoff")) args[na++] = orc_program_add_constant (p, 4, off, "c1");
    else if (!strncmp (kind, "ldres", 5)) { args[na++] = orc_program_add_parameter (p, 4, "p1"); args[na++] = orc_program_add_parameter (p, 4, "p2"); }
  } else if (op->src_size[1]) {
    if (op->flags & ORC_STATIC_OPCODE_SCALAR) args[na++] = orc_program_add_constant (p, op->src_size[1], 1, "c1");
    else { var[3] = orc_program_add_source (p, op->src_size[1], "s2"); used[3] = 1; esize[3] = op->src_size[1]; args[na++] = var[3]; }
  }
  while (na < 4) args[na++] = ORC_VAR_D1;
  orc_program_append_2 (p, opname, 0, args[0], args[1], args[2], args[3]);
  if (hc_mode == 'g') { hc_emit (p); orc_program_free (p); return; }
  if (hc_mode == 'r') {
    /* the compiled C function runs on the guarded arrays; emulation of the same program is the comparison */
    cfn = hc_next ();
    res = orc_program_compile_for_target (p, NULL);
    if (!cfn || ORC_COMPILE_RESULT_IS_FATAL (res) || !p->orccode) {
      HEMIT ("\"e\":\"NoCode\",\"op\":\"%s\",\"path\":\"%s\"", opname, path);
      orc_program_free (p); return;
    }
  } else
  if (native) {
    /* "<target>" or "<target>@<flags>" (compile with exactly these target flags) */
    char tn[16]; const char *at = strchr (path, '@');
    OrcTarget *t;
    snprintf (tn, sizeof (tn), "%.*s", at ? (int) (at - path) : 15, path);
    t = orc_target_get_by_name (tn);
    res = (at && t) ? orc_program_compile_full (p, t, (unsigned) strtoul (at + 1, NULL, 0)) : orc_program_compile_for_target (p, t);
  } else
  res = orc_program_compile_for_target (p, NULL);
  if (!cfn && ((native && !ORC_COMPILE_RESULT_IS_SUCCESSFUL (res)) || (!native && (ORC_COMPILE_RESULT_IS_FATAL (res) || !p->orccode)))) {
    HEMIT ("\"e\":\"NoCode\",\"op\":\"%s\",\"path\":\"%s\"", opname, path);
    orc_program_free (p); return;
  }
  /* element counts per row: destinations n; first source lo..hi (mapped from index lo) */
  rowel_src = hi >= lo ? hi - lo + 1 : 0;
  for (i = 0; i < 4; i++) {
    int rowbytes, total;
    if (!used[i]) continue;
    rowbytes = (i == 2 ? rowel_src : n) * esize[i];
    stride[i] = rowbytes + (m > 1 ? 3 * esize[i] + 16 : 0);
    total = m > 1 ? stride[i] * (m - 1) + rowbytes : rowbytes;
    if (!arr_alloc (&arrs[i], total, place)) { orc_program_free (p); return; }
    for (r = 0; r < total; r++) arrs[i].base[r] = (orc_uint8) (hrng_next (&rng) >> 13);
    /* gaps between rows are canaries */
    if (m > 1) { int k, g; for (k = 0; k < m - 1; k++) for (g = rowbytes; g < stride[i]; g++) arrs[i].base[k * stride[i] + g] = 0xc3; }
    memcpy (ref[i], arrs[i].base, total);
  }
  memset (&ex, 0, sizeof (ex));
  orc_executor_set_program (&ex, p);
  ex.n = n;
  if (m > 1) ORC_EXECUTOR_M (&ex) = m;
  for (i = 0; i < 4; i++) {
    if (!used[i]) continue;
    /* the executor gets the address of element 0; the first source may start at index lo */
    ex.arrays[var[i]] = arrs[i].base - (i == 2 ? lo * esize[i] : 0);
    ex.params[var[i]] = stride[i];
  }
  if (!strncmp (kind, "ldres", 5)) { ex.params[ORC_VAR_P1] = b; ex.params[ORC_VAR_P2] = c; }
  /* sources become read-only */
  for (i = 2; i < 4; i++) if (used[i]) mprotect (arrs[i].map + PG, arrs[i].maplen - 2 * PG, PROT_READ);
  memset (&sa, 0, sizeof (sa));
  sa.sa_sigaction = on_fault; sa.sa_flags = SA_SIGINFO | SA_NODEFER;
  sigaction (SIGSEGV, &sa, NULL); sigaction (SIGBUS, &sa, NULL);
  if (sigsetjmp (jb, 1) == 0) {
    if (cfn) cfn (&ex); else if (native) orc_executor_run (&ex); else orc_executor_emulate (&ex);
  } else {
    fault = 1;
    farr = which (arrs, names, 4, (void *) fault_addr, &eloff, esize);
  }
  signal (SIGSEGV, SIG_DFL); signal (SIGBUS, SIG_DFL);
  if (!fault && native) {
    /* the same program, emulated over copies of the same arrays on ordinary memory */
    static orc_uint8 cp[4][80000];
    OrcExecutor e2;
    memset (&e2, 0, sizeof (e2));
    orc_executor_set_program (&e2, p);
    e2.n = n;
    if (m > 1) ORC_EXECUTOR_M (&e2) = m;
    for (i = 0; i < 4; i++) if (used[i]) {
      memset (cp[i], 0, sizeof (cp[i]));
      memcpy (cp[i] + 8192, ref[i], arrs[i].bytes);
      e2.arrays[var[i]] = cp[i] + 8192 - (i == 2 ? lo * esize[i] : 0);
      e2.params[var[i]] = stride[i];
    }
    if (!strncmp (kind, "ldres", 5)) { e2.params[ORC_VAR_P1] = b; e2.params[ORC_VAR_P2] = c; }
    orc_executor_emulate (&e2);
    for (i = 0; i < 2; i++) if (used[i]) {
      int k, rowbytes = n * esize[i];
      for (k = 0; k < m; k++) if (memcmp (cp[i] + 8192 + k * stride[i], arrs[i].base + k * stride[i], rowbytes)) same = 0;
    }
    if ((op->flags & ORC_STATIC_OPCODE_ACCUMULATOR) && e2.accumulators[0] != ex.accumulators[0]) same = 0;
  }
  if (!fault) {
    /* sources unchanged, canaries intact */
    for (i = 2; i < 4; i++) if (used[i] && memcmp (ref[i], arrs[i].base, arrs[i].bytes)) canary = 0;
    if (m > 1) for (i = 0; i < 2; i++) if (used[i]) {
      int k, g, rowbytes = n * esize[i];
      for (k = 0; k < m - 1; k++) for (g = rowbytes; g < stride[i]; g++) if (arrs[i].base[k * stride[i] + g] != 0xc3) canary = 0;
    }
  }
  {
    HBuf sb, db;
    int k;
    hb_init (&sb); hb_init (&db);
    if (special && m == 1 && !fault) {
      for (k = 0; k < arrs[2].bytes; k++) hb_printf (&sb, k ? ",%d" : "%d", ref[2][k]);
      for (k = 0; k < arrs[0].bytes; k++) hb_printf (&db, k ? ",%d" : "%d", arrs[0].base[k]);
    }
    HEMIT ("\"e\":\"Bytes\",\"s\":[%s],\"d\":[%s]", sb.s, db.s);
    hb_free (&sb); hb_free (&db);
  }
  HEMIT ("\"e\":\"Access\",\"kind\":\"%s\",\"op\":\"%s\",\"path\":\"%s\",\"n\":%d,\"m\":%d,\"off\":%d,\"b\":%d,\"c\":%d,\"lo\":%d,\"hi\":%d,"
      "\"place\":%d,\"fault\":%d,\"canary\":%d,\"same\":%d,\"farr\":\"%s\",\"fel\":%ld", kind, opname, path, n, m, off, b, c, lo, hi,
      place, fault, canary, same, farr, eloff);
  for (i = 0; i < 4; i++) arr_free (&arrs[i]);
  orc_program_free (p);
}

int
main (int argc, char **argv)
{
  FILE *f;
  char *line = NULL; size_t cap = 0;
  if (argc < 3) { fprintf (stderr, "usage: h_guard <emu|avx|sse|mmx> <plan>\n"); return 2; }
  f = fopen (argv[2], "r");
  if (!f) { perror (argv[2]); return 2; }
  orc_init ();
  hc_init (argv[1]);
  HEMIT ("\"e\":\"Reset\"");
  while (getline (&line, &cap, f) > 0) {
    pid_t pid; int st;
    fflush (NULL);
    pid = fork ();
    if (pid == 0) { alarm (30); do_line (argv[1], line); _exit (0); }
    waitpid (pid, &st, 0);
    if (!WIFEXITED (st) || WEXITSTATUS (st) != 0) {
      line[strcspn (line, "\n")] = 0;
      HEMIT ("\"e\":\"Died\",\"plan\":\"%s\",\"path\":\"%s\",\"sig\":%d", line, argv[1], WIFSIGNALED (st) ? WTERMSIG (st) : 0);
    }
  }
  HEMIT ("\"e\":\"End\",\"leak\":0");
  free (line);
  fclose (f);
  return 0;
}
