/* C05 part B: boundary programs compiled for every registered target.
 *
 *   h_compile <file> <targets,comma-separated|all>
 * every line of <file> is a program description:
 *   R <id> <shape>*<n>,<shape>*<n>...   runs of instruction shapes (spec/CompilerTables.tla)
 *   O <id> <opcode> <x1|x2|x4> <kind>   one-instruction program; kind: s = array operands,
 *                                       c = constant second operand, p = parameter
 *   H <id> <opcode> <n>                 n repetitions of one (heavy) opcode on temporaries
 *   V <id> <class> <n>                  n variables of one class (d,s,a,c,p,t) + a copy
 * Each (program, target) is built and compiled in a fresh child under a
 * watchdog.  The child emits one Compile event (class and post-state seen
 * through the API); when it dies the parent emits a Died event instead.
 */
#include "hcommon.h"

static int backup_calls;
static void backup_func (OrcExecutor *ex) { backup_calls++; }

typedef struct { int nreg; void *xb[64]; int rs[64]; } Acc;
static void
acc_cb (void *user, int region, void *wp, void *xp, int rsize, int off, int size, int used)
{
  Acc *a = user;
  if (region + 1 > a->nreg) a->nreg = region + 1;
  if (region < 64) { a->xb[region] = xp; a->rs[region] = rsize; }
}

static const char *
exec_class (void *f)
{
  Acc a;
  int r;
  memset (&a, 0, sizeof (a));
  orc_verif_codemem_walk (acc_cb, &a);
  if (f == NULL) return "null";
  if (f == (void *) orc_executor_emulate) return "emu";
  if (f == (void *) backup_func) return "backup";
  for (r = 0; r < a.nreg && r < 64; r++)
    if ((char *) f >= (char *) a.xb[r] && (char *) f < (char *) a.xb[r] + a.rs[r]) return "jit";
  return "other";
}

/* ------------------------------------------------------------------ builders */

static OrcProgram *
build_runs (const char *spec)
{
  OrcProgram *p = orc_program_new ();
  char *dup = strdup (spec), *save = NULL, *tok;
  int d1, s1, s2, c1, ta, a1, nC = 0;
  d1 = orc_program_add_destination (p, 2, "d1");
  s1 = orc_program_add_source (p, 2, "s1");
  s2 = orc_program_add_source (p, 2, "s2");
  c1 = orc_program_add_constant (p, 2, 3, "c1");
  ta = orc_program_add_temporary (p, 2, "ta");
  a1 = orc_program_add_accumulator (p, 2, "a1");
  for (tok = strtok_r (dup, ",", &save); tok; tok = strtok_r (NULL, ",", &save)) {
    char shape[16];
    int n = 0, i;
    char *star = strchr (tok, '*');
    if (!star) continue;
    *star = 0;
    strncpy (shape, tok, sizeof (shape) - 1); shape[sizeof (shape) - 1] = 0;
    n = atoi (star + 1);
    for (i = 0; i < n; i++) {
      if (!strcmp (shape, "T=s.s")) orc_program_append_2 (p, "addw", 0, ta, s1, s2, ORC_VAR_D1);
      else if (!strcmp (shape, "d=s.s")) orc_program_append_2 (p, "addw", 0, d1, s1, s2, ORC_VAR_D1);
      else if (!strcmp (shape, "d=s.c")) orc_program_append_2 (p, "addw", 0, d1, s1, c1, ORC_VAR_D1);
      else if (!strcmp (shape, "d=s.C")) {
        int c;
        char name[16];
        nC++;
        sprintf (name, "k%d", nC);
        if (nC <= 7) c = orc_program_add_constant (p, 2, 100 + nC, name);
        else c = orc_program_add_parameter (p, 2, name);
        orc_program_append_2 (p, "addw", 0, d1, s1, c, ORC_VAR_D1);
      }
      else if (!strcmp (shape, "T=T.T")) orc_program_append_2 (p, "addw", 0, ta, ta, ta, ORC_VAR_D1);
      else if (!strcmp (shape, "d=d.d")) orc_program_append_2 (p, "addw", 0, d1, d1, d1, ORC_VAR_D1);
      else if (!strcmp (shape, "d=T.T")) orc_program_append_2 (p, "addw", 0, d1, ta, ta, ORC_VAR_D1);
      else if (!strcmp (shape, "A+=T")) orc_program_append_2 (p, "accw", 0, a1, ta, ORC_VAR_D1, ORC_VAR_D1);
    }
  }
  free (dup);
  return p;
}

static OrcProgram *
build_opcode (const char *opname, const char *pfx, const char *kind)
{
  OrcStaticOpcode *op = orc_opcode_find_by_name (opname);
  OrcProgram *p;
  int mult = !strcmp (pfx, "x2") ? 2 : (!strcmp (pfx, "x4") ? 4 : 1);
  unsigned flags = mult == 2 ? ORC_INSTRUCTION_FLAG_X2 : (mult == 4 ? ORC_INSTRUCTION_FLAG_X4 : 0);
  int args[6], na = 0, j;
  if (!op) return NULL;
  p = orc_program_new ();
  for (j = 0; j < ORC_STATIC_OPCODE_N_DEST; j++) {
    char name[8];
    if (!op->dest_size[j]) continue;
    sprintf (name, "d%d", j + 1);
    if (op->flags & ORC_STATIC_OPCODE_ACCUMULATOR)
      args[na++] = orc_program_add_accumulator (p, op->dest_size[j] * mult, name);
    else
      args[na++] = orc_program_add_destination (p, op->dest_size[j] * mult, name);
  }
  for (j = 0; j < ORC_STATIC_OPCODE_N_SRC; j++) {
    char name[8];
    if (!op->src_size[j]) continue;
    sprintf (name, "s%d", j + 1);
    if ((op->flags & ORC_STATIC_OPCODE_SCALAR) && (j >= 1 || !op->src_size[1])) {
      if (kind[0] == 'p') args[na++] = orc_program_add_parameter (p, op->src_size[j] * mult, name);
      else args[na++] = orc_program_add_constant (p, op->src_size[j] * mult, 1, name);
    } else if (j >= 1 && kind[0] == 'c') {
      args[na++] = orc_program_add_constant (p, op->src_size[j] * mult, 3, name);
    } else if (j >= 1 && kind[0] == 'p') {
      args[na++] = orc_program_add_parameter (p, op->src_size[j] * mult, name);
    } else {
      args[na++] = orc_program_add_source (p, op->src_size[j] * mult, name);
    }
  }
  while (na < 4) args[na++] = ORC_VAR_D1;
  orc_program_append_2 (p, opname, flags, args[0], args[1], args[2], args[3]);
  return p;
}

static OrcProgram *
build_heavy (const char *opname, int n)
{
  OrcStaticOpcode *op = orc_opcode_find_by_name (opname);
  OrcProgram *p;
  int d, s, t1, i;
  if (!op || !op->dest_size[0] || op->dest_size[1] || !op->src_size[0]) return NULL;
  if (op->dest_size[0] != op->src_size[0]) return NULL;
  if (op->src_size[1] && op->src_size[1] != op->src_size[0]) return NULL;
  p = orc_program_new ();
  d = orc_program_add_destination (p, op->dest_size[0], "d1");
  s = orc_program_add_source (p, op->src_size[0], "s1");
  t1 = orc_program_add_temporary (p, op->dest_size[0], "t1");
  orc_program_append_2 (p, op->dest_size[0] == 1 ? "copyb" : op->dest_size[0] == 2 ? "copyw" :
      op->dest_size[0] == 4 ? "copyl" : "copyq", 0, t1, s, ORC_VAR_D1, ORC_VAR_D1);
  for (i = 0; i < n; i++) {
    /* fresh temporaries where the program may still declare them, so that
     * the chain is not limited by the duplicate-temporary table first */
    orc_program_append_2 (p, opname, 0, t1, t1, t1, ORC_VAR_D1);
  }
  orc_program_append_2 (p, op->dest_size[0] == 1 ? "copyb" : op->dest_size[0] == 2 ? "copyw" :
      op->dest_size[0] == 4 ? "copyl" : "copyq", 0, d, t1, ORC_VAR_D1, ORC_VAR_D1);
  return p;
}

static OrcProgram *
build_vars (const char *cls, int n)
{
  OrcProgram *p = orc_program_new ();
  int i;
  orc_program_add_destination (p, 2, "d1");
  orc_program_add_source (p, 2, "s1");
  for (i = 0; i < n; i++) {
    char name[16];
    sprintf (name, "v%d", i);
    switch (cls[0]) {
      case 'd': orc_program_add_destination (p, 2, name); break;
      case 's': orc_program_add_source (p, 2, name); break;
      case 'a': orc_program_add_accumulator (p, 2, name); break;
      case 'c': orc_program_add_constant (p, 2, i, name); break;
      case 'p': orc_program_add_parameter (p, 2, name); break;
      default: orc_program_add_temporary (p, 2, name); break;
    }
  }
  orc_program_append_2 (p, "copyw", 0, ORC_VAR_D1, ORC_VAR_S1, ORC_VAR_D1, ORC_VAR_D1);
  return p;
}

/* programs whose rules ask the compiler's constant pool (constants[ORC_N_CONSTANTS]) for
 * k different values: the byte shifts mask with a constant that depends on the shift
 * amount, the other steps each bring the constants of one x86 rule */
static OrcProgram *
build_pool (int k)
{
  static const struct { const char *op; int dsz, ssz, two; } step[] = {
    { "avgsb", 1, 1, 1 }, { "div255w", 2, 2, 0 }, { "maxuw", 2, 2, 1 }, { "divluw", 2, 2, 1 },
    { "swapw", 2, 2, 0 }, { "signw", 2, 2, 0 }, { "maxul", 4, 4, 1 }, { "addssl", 4, 4, 1 },
    { "convulq", 8, 4, 0 }, { "swapl", 4, 4, 0 }, { "swapwl", 4, 4, 0 }, { "select0wb", 1, 2, 0 },
    { "select1wb", 1, 2, 0 }, { "select0lw", 2, 4, 0 }, { "select1lw", 2, 4, 0 }, { "swapq", 8, 8, 0 },
    { "minuw", 2, 2, 1 }, { "avgsw", 2, 2, 1 }, { "minul", 4, 4, 1 }, { "subssl", 4, 4, 1 },
  };
  OrcProgram *p = orc_program_new ();
  /* several temporaries per size, written in turn: every further write to one temporary costs the compiler
   * a duplicate, and that table must not be what ends the compile */
  int d[9], a[9], s[9], t[9][8], nt[9] = { 0 }, w[9] = { 0 }, c[8], i, j, n = 0;
  static const int sz[4] = { 1, 2, 4, 8 }, cnt[4] = { 6, 3, 2, 1 };
#define NEXT_T(size) (t[size][w[size]++ % nt[size]])
  for (i = 0; i < 4; i++) {
    char nm[8];
    sprintf (nm, "d%d", sz[i]); d[sz[i]] = orc_program_add_destination (p, sz[i], nm);
    sprintf (nm, "s%d", sz[i]); a[sz[i]] = orc_program_add_source (p, sz[i], nm);
    /* the steps read a copy of the source: a source array operand costs a temporary per use */
    sprintf (nm, "x%d", sz[i]); s[sz[i]] = orc_program_add_temporary (p, sz[i], nm);
    for (j = 0; j < cnt[i]; j++) {
      sprintf (nm, "t%d%c", sz[i], 'a' + j); t[sz[i]][j] = orc_program_add_temporary (p, sz[i], nm);
    }
    nt[sz[i]] = cnt[i];
  }
  for (i = 1; i <= 7; i++) {
    char nm[8];
    sprintf (nm, "c%d", i); c[i] = orc_program_add_constant (p, 1, i, nm);
  }
  orc_program_append_2 (p, "copyb", 0, s[1], a[1], ORC_VAR_D1, ORC_VAR_D1);
  orc_program_append_2 (p, "copyw", 0, s[2], a[2], ORC_VAR_D1, ORC_VAR_D1);
  orc_program_append_2 (p, "copyl", 0, s[4], a[4], ORC_VAR_D1, ORC_VAR_D1);
  orc_program_append_2 (p, "copyq", 0, s[8], a[8], ORC_VAR_D1, ORC_VAR_D1);
  for (i = 1; i <= 7 && n < k; i++, n++) orc_program_append_2 (p, "shlb", 0, NEXT_T (1), s[1], c[i], ORC_VAR_D1);
  for (i = 1; i <= 7 && n < k; i++, n++) orc_program_append_2 (p, "shrub", 0, NEXT_T (1), s[1], c[i], ORC_VAR_D1);
  for (i = 0; i < (int) (sizeof (step) / sizeof (step[0])) && n < k; i++, n++)
    orc_program_append_2 (p, step[i].op, 0, NEXT_T (step[i].dsz), s[step[i].ssz],
        step[i].two ? s[step[i].ssz] : ORC_VAR_D1, ORC_VAR_D1);
  orc_program_append_2 (p, "copyb", 0, d[1], w[1] ? t[1][0] : s[1], ORC_VAR_D1, ORC_VAR_D1);
  orc_program_append_2 (p, "copyw", 0, d[2], w[2] ? t[2][0] : s[2], ORC_VAR_D1, ORC_VAR_D1);
  orc_program_append_2 (p, "copyl", 0, d[4], w[4] ? t[4][0] : s[4], ORC_VAR_D1, ORC_VAR_D1);
  orc_program_append_2 (p, "copyq", 0, d[8], w[8] ? t[8][0] : s[8], ORC_VAR_D1, ORC_VAR_D1);
#undef NEXT_T
  return p;
}

/* ------------------------------------------------------------------ one compile */

/* events of a group attempt are held back until every target of the line
 * has been compiled (nothing is emitted if the child dies; the parent then
 * repeats the line with one child per target) */
static HBuf pending[8];
static int n_pending = -1;     /* -1: emit directly */

static void
child (const char *line, const char *kind, const char *id, const char *rest, const char *tname)
{
  OrcProgram *p = NULL;
  OrcTarget *t;
  int res, ran = 0;
  const char *cls;
  char a[64] = "", b[64] = "", c[64] = "";

  orc_init ();
  t = orc_target_get_by_name (tname);
  if (!t) return;
  sscanf (rest, "%63s %63s %63s", a, b, c);
  if (kind[0] == 'R') p = build_runs (a);
  else if (kind[0] == 'O') p = build_opcode (a, b, c);
  else if (kind[0] == 'H') p = build_heavy (a, atoi (b));
  else if (kind[0] == 'V') p = build_vars (a, atoi (b));
  else if (kind[0] == 'K') p = build_pool (atoi (a));
  if (!p) return;
  res = orc_program_compile_for_target (p, t);
  cls = ORC_COMPILE_RESULT_IS_SUCCESSFUL (res) ? "S" : (ORC_COMPILE_RESULT_IS_FATAL (res) ? "F" : "O");
  if (ORC_COMPILE_RESULT_IS_SUCCESSFUL (res) && t->executable && kind[0] != 'O') {
    /* callable: run it over a few elements (values are C01's business) */
    static orc_int16 arr[8][64];
    OrcExecutor ex;
    int i;
    memset (&ex, 0, sizeof (ex));
    orc_executor_set_program (&ex, p);
    ex.n = 7;
    for (i = 0; i < ORC_N_VARIABLES; i++)
      if (p->vars[i].vartype == ORC_VAR_TYPE_SRC || p->vars[i].vartype == ORC_VAR_TYPE_DEST)
        ex.arrays[i] = arr[i % 8];
    orc_executor_run (&ex);
    ran = 1;
  }
  {
    HBuf b;
    hb_init (&b);
    hb_printf (&b, "\"e\":\"Compile\",\"id\":\"%s\",\"kind\":\"%s\",\"tgt\":\"%s\",\"cls\":\"%s\",\"code\":%d,\"chunk\":%d,"
        "\"exec\":\"%s\",\"err\":%d,\"ran\":%d,\"pinsns\":%d", id, kind, tname, cls, p->orccode != NULL,
        p->orccode && p->orccode->chunk, exec_class ((void *) p->code_exec),
        orc_program_get_error (p) && orc_program_get_error (p)[0] ? 1 : 0, ran, p->n_insns);
    if (n_pending >= 0 && n_pending < 8) pending[n_pending++] = b;
    else { HEMIT ("%s", b.s); hb_free (&b); }
  }
  orc_program_free (p);
}

#define MAXPEND 4096
static HBuf *pend_all;
static int n_pend_all;

/* compile one line for all selected targets inside this process, holding the events back */
static void
do_line_here (char *line, const int *use, const char **targets)
{
  char kind[4], id[32];
  int off = 0, i, k;
  if (sscanf (line, "%3s %31s %n", kind, id, &off) < 2) return;
  for (i = 0; i < 8; i++) {
    if (!use[i]) continue;
    n_pending = 0;
    child (line, kind, id, line + off, targets[i]);
    for (k = 0; k < n_pending; k++)
      if (n_pend_all < MAXPEND) pend_all[n_pend_all++] = pending[k];
  }
}

/* returns 0 when the child finished cleanly (and emitted its events) */
static int
try_lines (char **lines, int n, const int *use, const char **targets, int watchdog)
{
  pid_t pid;
  int st, i;
  fflush (NULL);
  pid = fork ();
  if (pid == 0) {
    alarm (watchdog * 4 + n);
    pend_all = calloc (MAXPEND, sizeof (HBuf));
    for (i = 0; i < n; i++) do_line_here (lines[i], use, targets);
    for (i = 0; i < n_pend_all; i++) HEMIT ("%s", pend_all[i].s);
    _exit (0);
  }
  waitpid (pid, &st, 0);
  return !(WIFEXITED (st) && WEXITSTATUS (st) == 0);
}

int
main (int argc, char **argv)
{
  FILE *f;
  char *line = NULL; size_t cap = 0;
  const char *targets[] = { "c", "c64x-c", "mmx", "sse", "avx", "altivec", "neon", "mips" };
  int use[8], i, bad = 0, nl = 0, capl = 0, b;
  char **lines = NULL;
  int watchdog = getenv ("H_WATCHDOG") ? atoi (getenv ("H_WATCHDOG")) : 20;
  int batch = getenv ("H_BATCH") ? atoi (getenv ("H_BATCH")) : 16;

  if (argc < 3) { fprintf (stderr, "usage: h_compile <file> <targets|all>\n"); return 2; }
  for (i = 0; i < 8; i++) {
    char pat[32];
    sprintf (pat, ",%s,", targets[i]);
    use[i] = !strcmp (argv[2], "all");
    if (!use[i]) {
      char hay[256];
      snprintf (hay, sizeof (hay), ",%s,", argv[2]);
      use[i] = strstr (hay, pat) != NULL;
    }
  }
  f = fopen (argv[1], "r");
  if (!f) { perror (argv[1]); return 2; }
  while (getline (&line, &cap, f) > 0) {
    if (nl == capl) { capl = capl ? capl * 2 : 256; lines = realloc (lines, capl * sizeof (char *)); }
    lines[nl++] = strdup (line);
  }
  fclose (f);
  free (line);
  HEMIT ("\"e\":\"Reset\"");
  for (b = 0; b < nl; b += batch) {
    int n = nl - b < batch ? nl - b : batch, j;
    /* a whole batch in one child; when it dies, line by line; then target by target */
    if (!try_lines (lines + b, n, use, targets, watchdog)) continue;
    for (j = 0; j < n; j++) {
      char kind[4], id[32];
      int off = 0;
      if (!try_lines (lines + b + j, 1, use, targets, watchdog)) continue;
      if (sscanf (lines[b + j], "%3s %31s %n", kind, id, &off) < 2) continue;
      for (i = 0; i < 8; i++) {
        pid_t pid;
        int st;
        if (!use[i]) continue;
        fflush (NULL);
        pid = fork ();
        if (pid == 0) {
          alarm (watchdog);
          n_pending = -1;
          child (lines[b + j], kind, id, lines[b + j] + off, targets[i]);
          _exit (0);
        }
        waitpid (pid, &st, 0);
        if (WIFSIGNALED (st) || (WIFEXITED (st) && WEXITSTATUS (st) != 0)) {
          HEMIT ("\"e\":\"Died\",\"id\":\"%s\",\"kind\":\"%s\",\"tgt\":\"%s\",\"how\":\"%s\",\"n\":%d", id, kind, targets[i],
              WIFSIGNALED (st) ? (WTERMSIG (st) == SIGALRM ? "timeout" : "signal") : "exit",
              WIFSIGNALED (st) ? WTERMSIG (st) : WEXITSTATUS (st));
          bad++;
        }
      }
    }
  }
  HEMIT ("\"e\":\"End\",\"leak\":0");
  return bad ? 3 : 0;
}
