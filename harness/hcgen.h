/* The "generated C" path of the harnesses (C04, C18).
 *   path "cgen:<v>"   emit, for every program the plan builds, the C source Orc generates for
 *                     it into the file named by H_CGEN_OUT (nothing is run)
 *   path "c:<v>"      run the same plan, calling the functions of the shared object named by
 *                     H_CSO (gcc's output for that file) instead of native code / emulation
 * variants <v>:
 *   x  orc_program_compile_full (p, "c", 0): a complete  void name (OrcExecutor *ex)
 *   b  ORC_TARGET_C_BARE: the body orcc puts into _backup_<name> (OrcExecutor * ORC_RESTRICT ex)
 *   n  ORC_TARGET_C_BARE | ORC_TARGET_C_NOEXEC: the body orcc puts into the Orc-free function;
 *      the prototype's arguments (d1, d1_stride, s1, p1, a1, n, m ...) are provided as locals
 *      with the types orcc's prototype gives them, filled in from the executor
 * Functions are named f<hash of the plan line>_<k>, k counting the programs of that line.
 */
#ifndef HCGEN_H
#define HCGEN_H
#include <dlfcn.h>

typedef void (*HCFn) (OrcExecutor *);
static int hc_mode;            /* 0: not a C path, 'g' generate, 'r' run */
static int hc_variant;
static FILE *hc_out;
static void *hc_so;
static unsigned long hc_line_hash;
static int hc_seq;

static const char *hc_argnames[] = { "d1", "d2", "d3", "d4", "s1", "s2", "s3", "s4", "s5", "s6", "s7", "s8",
  "a1", "a2", "a3", "a4", "c1", "c2", "c3", "c4", "c5", "c6", "c7", "c8", "p1", "p2", "p3", "p4", "p5", "p6", "p7", "p8" };

static int
hc_init (const char *path)
{
  if (!strncmp (path, "cgen:", 5)) {
    const char *fn = getenv ("H_CGEN_OUT");
    hc_mode = 'g'; hc_variant = path[5];
    if (!fn || !(hc_out = fopen (fn, "w"))) { fprintf (stderr, "H_CGEN_OUT?\n"); exit (2); }
    fprintf (hc_out, "%s", orc_target_c_get_typedefs ());
    fprintf (hc_out, "#include <orc/orc.h>\n");
    fprintf (hc_out, "%s", orc_target_get_asm_preamble ("c"));
    fflush (hc_out);
  } else if (!strncmp (path, "c:", 2)) {
    const char *fn = getenv ("H_CSO");
    hc_mode = 'r'; hc_variant = path[2];
    if (!fn || !(hc_so = dlopen (fn, RTLD_NOW))) { fprintf (stderr, "H_CSO? %s\n", dlerror ()); exit (2); }
  }
  return hc_mode;
}

static void hc_begin_line (const char *line) { hc_line_hash = (unsigned long) (fnv1a (line, strcspn (line, "\n")) & 0xffffffffffffUL); hc_seq = 0; }

/* generate mode: compile p for the C target and append the function; returns 0 when the C
 * target produced no code.  p is consumed as far as compilation goes (free it afterwards). */
static int
hc_emit (OrcProgram *p)
{
  unsigned flags = hc_variant == 'x' ? 0 : hc_variant == 'b' ? ORC_TARGET_C_BARE : (ORC_TARGET_C_BARE | ORC_TARGET_C_NOEXEC);
  char fname[64];
  OrcCompileResult res;
  int i;
  sprintf (fname, "f%lx_%d", hc_line_hash, hc_seq++);
  orc_program_set_name (p, fname);
  res = orc_program_compile_full (p, orc_target_get_by_name ("c"), flags);
  if (!ORC_COMPILE_RESULT_IS_SUCCESSFUL (res) || !orc_program_get_asm_code (p)) return 0;
  if (hc_variant == 'x') {
    fprintf (hc_out, "%s\n", orc_program_get_asm_code (p));
  } else if (hc_variant == 'b') {
    fprintf (hc_out, "void\n%s (OrcExecutor * ORC_RESTRICT ex)\n{\n%s\n}\n\n", fname, orc_program_get_asm_code (p));
  } else {
    fprintf (hc_out, "void\n%s (OrcExecutor * ORC_RESTRICT ex)\n{\n", fname);
    fprintf (hc_out, "  int n = ex->n;\n  int m = ex->params[ORC_VAR_A1];\n");
    for (i = 0; i < ORC_VAR_T1; i++) {
      OrcVariable *v = &p->vars[i];
      if (!v->name) continue;
      switch (v->vartype) {
        case ORC_VAR_TYPE_DEST:
          fprintf (hc_out, "  orc_uint8 * ORC_RESTRICT %s = ex->arrays[%d]; int %s_stride = ex->params[%d];\n", hc_argnames[i], i, hc_argnames[i], i);
          break;
        case ORC_VAR_TYPE_SRC:
          fprintf (hc_out, "  const orc_uint8 * ORC_RESTRICT %s = ex->arrays[%d]; int %s_stride = ex->params[%d];\n", hc_argnames[i], i, hc_argnames[i], i);
          break;
        case ORC_VAR_TYPE_ACCUMULATOR:
          fprintf (hc_out, "  int _acc%d = 0; int * ORC_RESTRICT %s = &_acc%d;\n", i, hc_argnames[i], i);
          break;
        case ORC_VAR_TYPE_PARAM:
          switch (v->param_type) {
            case ORC_PARAM_TYPE_INT: fprintf (hc_out, "  int %s = ex->params[%d];\n", hc_argnames[i], i); break;
            case ORC_PARAM_TYPE_FLOAT: fprintf (hc_out, "  float %s = ((orc_union32 *)(ex->params+%d))->f;\n", hc_argnames[i], i); break;
            case ORC_PARAM_TYPE_INT64:
              fprintf (hc_out, "  orc_int64 %s = (orc_int64)(((orc_uint64)(orc_uint32)ex->params[%d]) | (((orc_uint64)(orc_uint32)ex->params[%d]) << 32));\n",
                  hc_argnames[i], i, i + (ORC_VAR_T1 - ORC_VAR_P1));
              break;
            case ORC_PARAM_TYPE_DOUBLE:
              fprintf (hc_out, "  orc_union64 _u%d; double %s;\n  _u%d.i = (orc_int64)(((orc_uint64)(orc_uint32)ex->params[%d]) | (((orc_uint64)(orc_uint32)ex->params[%d]) << 32)); %s = _u%d.f;\n",
                  i, hc_argnames[i], i, i, i + (ORC_VAR_T1 - ORC_VAR_P1), hc_argnames[i], i);
              break;
            default: break;
          }
          break;
        default: break;
      }
    }
    fprintf (hc_out, "  {\n%s\n  }\n", orc_program_get_asm_code (p));
    for (i = ORC_VAR_A1; i < ORC_VAR_C1; i++)
      if (p->vars[i].name && p->vars[i].vartype == ORC_VAR_TYPE_ACCUMULATOR)
        fprintf (hc_out, "  ex->accumulators[%d] = _acc%d;\n", i - ORC_VAR_A1, i);
    fprintf (hc_out, "  (void) n; (void) m;\n}\n\n");
  }
  fflush (hc_out);
  return 1;
}

/* run mode: the function generated for the next program of this line (NULL: none) */
static HCFn
hc_next (void)
{
  char fname[64];
  sprintf (fname, "f%lx_%d", hc_line_hash, hc_seq++);
  return (HCFn) dlsym (hc_so, fname);
}
#endif
