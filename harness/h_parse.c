/* C14 / C15 harness: the .orc parser.
 *   h_parse <dir> <first> <count>
 * parses the files <dir>/f<k>.orc for k = first .. first+count-1 (batches of 32 per child; a
 * batch whose child dies is repeated one file per child).  For every file: orc_parse_code,
 * one Parse event (number of programs, error line numbers, variable and instruction counts
 * of the last program, bytecode digest of every program), then every returned program is
 * compiled and freed and the error vector is released with orc_parse_error_freev.
 * With <dir>/f<k>.api present (C15), the API twin described there is built and compared.
 */
#include "hcommon.h"
#include <orc/orcbytecode.h>
#include <sys/stat.h>
#include "hbuild.h"

static char *
slurp (const char *fn, long *len)
{
  FILE *f = fopen (fn, "rb");
  char *b; long n;
  if (!f) return NULL;
  fseek (f, 0, SEEK_END); n = ftell (f); fseek (f, 0, SEEK_SET);
  b = malloc (n + 1);
  if (fread (b, 1, n, f) != (size_t) n) { fclose (f); free (b); return NULL; }
  b[n] = 0;
  fclose (f);
  if (len) *len = n;
  return b;
}

static int
count_class (OrcProgram *p, int first, int n)
{
  int i, c = 0;
  for (i = 0; i < n; i++) if (p->vars[first + i].size) c++;
  return c;
}

static HBuf pending[64];
static int n_pending = -1;

static void
emit_or_hold (HBuf *b)
{
  if (n_pending >= 0 && n_pending < 64) pending[n_pending++] = *b;
  else { HEMIT ("%s", b->s); hb_free (b); }
}

static void
do_file (const char *dir, int k)
{
  char fn[512];
  char *code;
  OrcProgram **progs = NULL;
  OrcParseError **errors = NULL;
  int n_progs = 0, n_errors = 0, i, rc;
  HBuf b;
  long len = 0;

  snprintf (fn, sizeof (fn), "%s/f%d.orc", dir, k);
  code = slurp (fn, &len);
  if (!code) return;
  rc = orc_parse_code (code, &progs, &n_progs, &errors, &n_errors);
  hb_init (&b);
  hb_printf (&b, "\"e\":\"Parse\",\"f\":%d,\"rc\":%d,\"nprogs\":%d,\"errs\":[", k, rc, n_progs);
  for (i = 0; i < n_errors; i++) hb_printf (&b, "%s%d", i ? "," : "", errors[i]->line_number);
  hb_printf (&b, "]");
  if (n_progs > 0) {
    OrcProgram *p = progs[n_progs - 1];
    hb_printf (&b, ",\"last\":{\"d\":%d,\"s\":%d,\"a\":%d,\"c\":%d,\"p\":%d,\"t\":%d,\"insns\":%d}",
        count_class (p, ORC_VAR_D1, 4), count_class (p, ORC_VAR_S1, 8), count_class (p, ORC_VAR_A1, 4),
        count_class (p, ORC_VAR_C1, 8), count_class (p, ORC_VAR_P1, 8), count_class (p, ORC_VAR_T1, 16), p->n_insns);
  } else {
    hb_printf (&b, ",\"last\":{\"d\":0,\"s\":0,\"a\":0,\"c\":0,\"p\":0,\"t\":0,\"insns\":0}");
  }
  /* digests for C15: bytecode of each program that parsed without error */
  hb_printf (&b, ",\"bc\":[");
  for (i = 0; i < n_progs; i++) {
    const char *e = orc_program_get_error (progs[i]);
    if (e && e[0]) { hb_printf (&b, "%s\"err\"", i ? "," : ""); continue; }
    {
      OrcBytecode *bc = orc_bytecode_from_program (progs[i]);
      hb_printf (&b, "%s\"%016llx\"", i ? "," : "", (unsigned long long) fnv1a (bc->bytecode, bc->length));
      orc_bytecode_free (bc);
    }
  }
  hb_printf (&b, "]");
  /* C15: the API twin of the (single) function of this file */
  {
    char afn[512];
    char *desc;
    snprintf (afn, sizeof (afn), "%s/f%d.api", dir, k);
    desc = slurp (afn, NULL);
    if (desc) {
      OrcProgram *twin = build_program (desc);
      OrcBytecode *ba = orc_bytecode_from_program (twin);
      int j;
      hb_printf (&b, ",\"api\":[");
      for (j = 0; j < ba->length; j++) hb_printf (&b, "%s%d", j ? "," : "", ba->bytecode[j]);
      hb_printf (&b, "],\"text\":[");
      if (n_progs == 1) {
        OrcBytecode *bt = orc_bytecode_from_program (progs[0]);
        for (j = 0; j < bt->length; j++) hb_printf (&b, "%s%d", j ? "," : "", bt->bytecode[j]);
        orc_bytecode_free (bt);
      }
      hb_printf (&b, "]");
      orc_bytecode_free (ba);
      orc_program_free (twin);
      free (desc);
    }
  }
  emit_or_hold (&b);
  /* the returned objects must be usable: compile and free every program */
  for (i = 0; i < n_progs; i++) {
    orc_program_compile (progs[i]);
    orc_program_free (progs[i]);
  }
  free (progs);
  orc_parse_error_freev (errors);
  free (code);
}

static int
try_range (const char *dir, int first, int n, int hold)
{
  pid_t pid; int st;
  fflush (NULL);
  pid = fork ();
  if (pid == 0) {
    int i;
    alarm (30 + n);
    n_pending = hold ? 0 : -1;
    for (i = 0; i < n; i++) do_file (dir, first + i);
    for (i = 0; i < n_pending; i++) HEMIT ("%s", pending[i].s);
    _exit (0);
  }
  waitpid (pid, &st, 0);
  if (WIFEXITED (st) && WEXITSTATUS (st) == 0) return 0;
  return WIFSIGNALED (st) ? 1000 + WTERMSIG (st) : WEXITSTATUS (st);
}

int
main (int argc, char **argv)
{
  int first, count, b, bad = 0;
  if (argc < 4) { fprintf (stderr, "usage: h_parse <dir> <first> <count>\n"); return 2; }
  first = atoi (argv[2]); count = atoi (argv[3]);
  HEMIT ("\"e\":\"Reset\"");
  orc_init ();
  for (b = 0; b < count; b += 32) {
    int n = count - b < 32 ? count - b : 32, j;
    if (!try_range (argv[1], first + b, n, 1)) continue;
    for (j = 0; j < n; j++) {
      int r = try_range (argv[1], first + b + j, 1, 0);
      if (r) { HEMIT ("\"e\":\"Died\",\"f\":%d,\"how\":%d", first + b + j, r); bad++; }
    }
  }
  HEMIT ("\"e\":\"End\",\"leak\":0");
  return bad ? 3 : 0;
}
