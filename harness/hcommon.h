/* Shared helpers of the conformance harnesses. */
#ifndef HCOMMON_H
#define HCOMMON_H

#include <stdio.h>
#include <stdlib.h>
#include <string.h>
#include <stdint.h>
#include <stdarg.h>
#include <unistd.h>
#include <signal.h>
#include <errno.h>
#include <sys/types.h>
#include <sys/wait.h>
#include <sys/mman.h>

#include <orc/orc.h>
#include <orc/orcinternal.h>
#include <orc/orcverif.h>
#include <orc-test/orctest.h>

/* provided by liborc with -DORC_VERIF_HOOKS (H2) */
void orc_verif_codemem_walk (void (*cb) (void *user, int region, void *write_ptr,
      void *exec_ptr, int region_size, int offset, int size, int used), void *user);

/* growable string buffer for building event payloads */
typedef struct { char *s; size_t n, cap; } HBuf;

static inline void hb_init (HBuf *b) { b->cap = 1024; b->s = malloc (b->cap); b->n = 0; b->s[0] = 0; }
static inline void hb_reset (HBuf *b) { b->n = 0; b->s[0] = 0; }
static inline void hb_free (HBuf *b) { free (b->s); b->s = NULL; }
static inline void
hb_printf (HBuf *b, const char *fmt, ...)
{
  va_list ap;
  int m;
  va_start (ap, fmt);
  m = vsnprintf (NULL, 0, fmt, ap);
  va_end (ap);
  if (b->n + m + 1 > b->cap) {
    while (b->n + m + 1 > b->cap) b->cap *= 2;
    b->s = realloc (b->s, b->cap);
  }
  va_start (ap, fmt);
  vsnprintf (b->s + b->n, m + 1, fmt, ap);
  va_end (ap);
  b->n += m;
}

/* splitmix64: the only random source of the harnesses (seeded by VERIF_SEED) */
typedef struct { uint64_t s; } HRng;
static inline uint64_t
hrng_next (HRng *r)
{
  uint64_t z = (r->s += 0x9e3779b97f4a7c15ULL);
  z = (z ^ (z >> 30)) * 0xbf58476d1ce4e5b9ULL;
  z = (z ^ (z >> 27)) * 0x94d049bb133111ebULL;
  return z ^ (z >> 31);
}
static inline unsigned hrng_below (HRng *r, unsigned n) { return n ? (unsigned) (hrng_next (r) % n) : 0; }

static inline uint64_t
fnv1a (const void *p, size_t n)
{
  const unsigned char *c = p;
  uint64_t h = 1469598103934665603ULL;
  size_t i;
  for (i = 0; i < n; i++) { h ^= c[i]; h *= 1099511628211ULL; }
  return h;
}

/* one line per call on stdout too when HVERBOSE is set */
#define HEMIT(...) orc_verif_emit (__VA_ARGS__)

#endif
